#!/bin/bash
# eval_mutant_b.sh <seed-id> <property> [more properties...]      (phase B: the quick checks against /repo with the change applied)
set -u
ID=$1; shift; PROPS="$@"
OUT=/verif/seeded/$ID
export VERIF_OUT=/tmp/verif_mutant_out   # evidence / replays of runs against a seeded change never overwrite /verif/evidence
if ! git -C /repo diff --quiet -- xenium; then echo "/repo has uncommitted changes under xenium/: refusing"; exit 2; fi
git -C /repo apply $OUT/patch.diff || { echo "patch does not apply to /repo"; exit 2; }
: > $OUT/check_results.txt
for P in $PROPS; do
  (cd /verif && timeout 3000 bin/vcheck $P --tier quick > $OUT/check_$P.log 2>&1; echo "$P exit=$?" | tee -a $OUT/check_results.txt; grep -m2 "VIOLATION\|HARNESS" $OUT/check_$P.log | cut -c1-200; grep -m1 '^  key=' $OUT/check_$P.log)
done
git -C /repo checkout -- .
git -C /repo status --short | grep -v _build
