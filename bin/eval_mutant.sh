#!/bin/bash
# eval_mutant.sh <worktree> <seed-id> <property> [more properties...]
# Confirms a sub-agent's seeded change (demo fails with / passes without, library test-suite passes with it), stores it under
# /verif/seeded/<seed-id>/ and runs the quick checks of the given properties against /repo with the patch applied.
set -u
WT=$1; ID=$2; shift 2; PROPS="$@"
OUT=/verif/seeded/$ID
mkdir -p $OUT
cd $WT || exit 2
git diff -- xenium > $OUT/patch.diff
[ -s $OUT/patch.diff ] || { echo "empty patch"; exit 2; }
cp demo.cpp demo_build.txt notes.txt $OUT/ 2>/dev/null
BUILD=$(grep -v '^#' demo_build.txt | grep -m1 'g++\|clang')
echo "== demo WITH the change"; (cd $WT && eval "$BUILD" >/dev/null 2>$OUT/demo_build.log && timeout 300 ./demo >$OUT/demo_with.log 2>&1; echo "exit=$?" | tee $OUT/demo_with.exit)
git apply -R $OUT/patch.diff
echo "== demo WITHOUT the change"; (cd $WT && eval "$BUILD" >/dev/null 2>>$OUT/demo_build.log && timeout 300 ./demo >$OUT/demo_without.log 2>&1; echo "exit=$?" | tee $OUT/demo_without.exit)
git apply $OUT/patch.diff
rm -f $WT/demo
if [ "${SKIP_SUITE:-0}" != "1" ]; then
  echo "== library test-suite WITH the change"
  GT=""; [ -f $WT/3rdParty/gtest/googletest/src/gtest-all.cc ] || GT="-DGOOGLETEST_ROOT=../../usr/src/googletest/googletest"
  (cd $WT && cmake -G Ninja -B _build -DCMAKE_BUILD_TYPE=RelWithDebInfo -DCMAKE_CXX_FLAGS=-Wno-error -DWITH_TSAN=ON $GT >/dev/null 2>&1 && cmake --build _build --target gtest -j12 2>&1 | tail -1 && ./_build/gtest 2>&1 | tail -2 | tee $OUT/suite_with.log)
  rm -rf $WT/_build
fi
echo "== checks against /repo with the patch applied"
git -C /repo apply $OUT/patch.diff || { echo "patch does not apply to /repo"; exit 2; }
for P in $PROPS; do
  (cd /verif && timeout 3000 bin/vcheck $P --tier quick > $OUT/check_$P.log 2>&1; echo "$P exit=$?" | tee -a $OUT/check_results.txt; grep -m2 "VIOLATION\|HARNESS" $OUT/check_$P.log | cut -c1-200)
done
git -C /repo checkout -- .
git -C /repo status --short | grep -v _build
