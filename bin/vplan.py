"""Property plans for bin/vcheck: build targets, job lists per tier, attribution of oracle kinds, non-vacuity gates."""
import re

R8 = list(range(0, 8))
RPLUS = list(range(8, 16))
RNAMES = {16: "hp_eager", 17: "he_eager", 0: "lfrc", 1: "hp_static", 2: "he_static", 3: "qsbr", 4: "stamp_it", 5: "ebr_sf1", 6: "nebr_sf1", 7: "debra_sf1",
          8: "hp_dynamic", 9: "he_dynamic", 10: "lfrc_tl2_pad", 11: "geb_n2_abandon_always", 12: "geb_all_abandon_thr2_lazy",
          13: "geb_sf0_one_none", 14: "ebr_sf2", 15: "debra_sf2_abandon"}

TARGETS = {}
for n in range(18):  # 16 / 17 = eager hazard_pointer / hazard_eras (threshold 0: a scan on every retirement)
    TARGETS["queues.R%d" % n] = dict(src="scenarios/queues.cpp", defs=["-DXV_RECL=%d" % n])
TARGETS["queues.norecl"] = dict(src="scenarios/queues.cpp", defs=["-DXV_NORECL"])
for n in range(16):
    TARGETS["vyukov.R%d" % n] = dict(src="scenarios/vyukov.cpp", defs=["-DXV_RECL=%d" % n])
for n in range(18):  # 16 / 17 = eager hazard_pointer / hazard_eras (threshold 0: a scan on every retirement)
    TARGETS["harris.R%d" % n] = dict(src="scenarios/harris.cpp", defs=["-DXV_RECL=%d" % n])
for n in range(18):
    TARGETS["reclaim.R%d" % n] = dict(src="scenarios/reclaim.cpp", defs=["-DXV_RECL=%d" % n])

TARGETS["deque"] = dict(src="scenarios/deque.cpp", defs=[])

TARGETS["seqlock"] = dict(src="scenarios/seqlock.cpp", defs=[])

TARGETS["leftright"] = dict(src="scenarios/leftright.cpp", defs=[])

TARGETS["slots"] = dict(src="scenarios/slots.cpp", defs=[])
for n in range(16):
    TARGETS["algebra.R%d" % n] = dict(src="scenarios/slots.cpp", defs=["-DXV_RECL=%d" % n])
TARGETS["markedptr"] = dict(src="scenarios/markedptr.cpp", defs=[], standalone=True)

SIMPLE_FAMILIES = {"deque": ["C12"], "seqlock": ["C14"], "leftright": ["C13"], "slots": ["C18"]}
GENERIC_KINDS = {"use-after-free", "wild-access", "double-free", "bad-free", "crash", "hang", "deadlock", "watchdog"}
RACE_KINDS = {"race", "race-free", "race-free-vs-atomic", "tsan-report"}


def queue_lin_prop(config):
    if config.startswith(("ms_", "ram_", "nik_")):
        return "C04"
    if config.startswith(("vyu_", "nib_")):
        return "C05"
    if config.startswith(("kir_", "kib_", "big_kir_", "big_kib_")):
        return "C06"
    return "C04"


def attribute(scenario, config, kind, primary, weak):
    """Which properties does a violation of this oracle kind, seen in this scenario/config, refute?
    First entry = primary property."""
    props = []
    fam = scenario.split(".")[0]
    race = kind in RACE_KINDS
    if fam == "queues":
        lin = queue_lin_prop(config)
        if kind.startswith("elem-"):
            props = ["C07"]
        elif kind in ("not-linearizable", "drain-incomplete") or kind.startswith("big-"):
            props = [lin]
        elif kind in ("solo-bound", "solo-blocked"):
            props = ["C16"]
        else:  # crashes, heap errors, hangs, races: the history is broken for every property this scenario serves
            props = [lin, "C07"]
    elif fam == "slots" and kind == "bookkeeping-growth":
        props = ["C17", "C18"]  # footprint census across the thread generations of all executions of one process
    elif fam in SIMPLE_FAMILIES:
        props = ["C16"] if kind in ("solo-bound", "solo-blocked") else list(SIMPLE_FAMILIES[fam])
    elif fam == "vyukov":
        if kind in ("solo-bound", "solo-blocked"):
            props = ["C16"]
        elif primary and kind not in GENERIC_KINDS and not race:
            props = [primary]
        elif config.startswith("iter_"):
            props = ["C11", "C10"]
        elif config.startswith("seq_"):
            props = ["C10", "C11"]
        else:
            props = ["C10"]
    elif fam == "harris":
        if kind in ("solo-bound", "solo-blocked"):
            props = ["C16"]
        elif primary and kind not in GENERIC_KINDS and not race:
            props = [primary]
        else:  # crash / heap error / race: breaks set semantics and iterator validity alike
            props = ["C08", "C09"] if config.startswith("trav_") else ["C08"]
    elif fam in ("algebra", "markedptr"):
        props = ["C16"] if kind in ("solo-bound", "solo-blocked") else ["C15"]
    elif fam == "reclaim":
        if kind in ("solo-bound", "solo-blocked"):
            props = ["C16"]
        elif primary and kind not in GENERIC_KINDS and not race:
            props = [primary]
        elif kind in ("double-free", "bad-free"):
            props = ["C02", "C01"]
        else:  # use-after-free, crash, hang, race with a free ... : the reclamation protocol itself is broken
            props = ["C01", "C02", "C15", "C17"]
    else:
        props = [primary] if primary else []
    if race:  # a data race refutes C03 first of all, and undermines the scenario's own property
        props = ["C03"] + [p for p in props if p != "C03"]
    if weak and "C03" not in props:
        props.append("C03")
    return props


# configuration families that are long sequential sweeps / differential runs / special shapes: they belong to the plans that name
# them explicitly and are never picked up by a catch-all pattern of another plan (C03, C07, C16 ... use patterns like "." or "_uptr$")
SPECIAL_PREFIXES = ("big_", "seq_", "hold_", "wide_")


def cfgs_matching(list_configs, target, variant, pattern):
    rx = re.compile(pattern)
    out = []
    for c in list_configs(target, variant):
        if not rx.search(c):
            continue
        sp = [p for p in SPECIAL_PREFIXES if c.startswith(p)]
        if sp and sp[0].rstrip("_") not in pattern:
            continue
        out.append(c)
    return out


def queue_jobs(list_configs, recls, pattern, variant, mode, execs, seed, norecl=False, window=16, extra=None, per_job=4):
    jobs = []
    targets = (["queues.norecl"] if norecl else []) + ["queues.R%d" % r for r in recls]
    for t in targets:
        cfgs = cfgs_matching(list_configs, t, variant, pattern)
        # a few configurations per process: reclaimer state carries over between them, replay re-runs the same list
        for i in range(0, len(cfgs), per_job):
            chunk = cfgs[i:i + per_job]
            args = ["--cfg", ",".join(chunk), "--mode", mode, "--seed", str(seed), "--execs", str(execs), "--window", str(window)]
            if extra:
                args += extra
            jobs.append(dict(target=t, variant=variant, args=args, timeout=3600))
    return jobs


ASSUME_XRT = [
    "xrt scheduler preempts only at instrumented events (atomics, fences, mutex ops, optionally plain accesses), not between arbitrary instructions",
    "gcc 12 -O1 with -fsanitize=thread instrumentation; the shipped -O2 build is exercised only by the baseline suite",
    "verdicts cover only the executions explored (seeded random schedules over generated programs)",
]


def plan_queue_lin(prop, pattern, recls_quick, recls_thorough, norecl, rule, gate_counter=None, execs_quick=400, execs_thorough=6000):
    def targets(tier):
        recls = recls_quick if tier == "quick" else recls_thorough
        t = [("queues.R%d" % r, "xrt-prod") for r in recls]
        if norecl:
            t.append(("queues.norecl", "xrt-prod"))
        return t

    def jobs(tier, seed, list_configs):
        recls = recls_quick if tier == "quick" else recls_thorough
        execs = execs_quick if tier == "quick" else execs_thorough
        return queue_jobs(list_configs, recls, pattern, "xrt-prod", "sc", execs, seed, norecl=norecl, per_job=2 if tier == "quick" else 1)

    def gates(tier, agg, counters, per_config, distinct):
        msgs = []
        if agg["execs"] == 0:
            msgs.append("no executions")
        if distinct < 100:
            msgs.append("only %d distinct non-trivial histories" % distinct)
        for pc, v in per_config.items():
            if v["execs"] and v["nontrivial"] == 0 and "/native-" not in pc:  # native slices: overlap is up to the OS scheduler
                msgs.append("config %s produced no overlapping history" % pc)
        if gate_counter:
            for c in gate_counter:
                if counters.get(c, 0) == 0:
                    msgs.append("counter %s is zero" % c)
        return msgs

    return dict(targets=targets, jobs=jobs, gates=gates, rule=rule, assumptions=ASSUME_XRT, level="exploration")


PLANS = {}
PLANS["C04"] = plan_queue_lin(
    "C04", r"^(ms|ram|nik)_", R8 + [16, 17], R8 + RPLUS + [16, 17], False,
    "each evaluation = one generated program (2-4 threads x <=6 push/try_pop/pop, sequential prefix, final drain) run under one "
    "seeded schedule of the controlled runtime and judged by a WGL linearizability search against a sequential FIFO; "
    "distinct_nontrivial counts distinct (program, call/return order, results) hashes in which at least two operations of different "
    "threads overlap; reclaimers: the 8 standard configurations plus eager hazard_pointer / hazard_eras (threshold 0: a scan on every retirement, so a "
    "node that is retired while still reachable through a stale pointer is freed at once and the access hits the freed-memory shadow)",
    ["empty_under_overlap"], execs_quick=6000, execs_thorough=40000)
PLANS["C05"] = plan_queue_lin(
    "C05", r"^(vyu|nib)_", [], [], True,
    "as C04 but against a bounded FIFO of the configured capacity (failed strong try_push legal only when full; for "
    "nikolaev_bounded_queue when size + overlapping operations >= capacity; weak vyukov operations may fail spuriously); vyukov_bounded_queue is instantiated with the "
    "default policy and with policy::default_to_weak<true> (`vyu_dw_*`: the unqualified try_push / try_pop / pop are the weak flavour there, "
    "the explicitly named *_strong / *_weak operations must behave identically under both policies)",
    ["rejected_under_overlap", "empty_under_overlap"], execs_quick=20000, execs_thorough=200000)
PLANS["C06"] = plan_queue_lin(
    "C06", r"^(kir|kib)_", [1, 2, 3, 4, 5, 6, 7, 16, 17], [1, 2, 3, 4, 5, 6, 7, 8, 9, 11, 12, 13, 14, 15, 16, 17], True,
    "as C04 but against a k-out-of-order FIFO (pop may return any of the k oldest; 'empty' legal iff size = 0, or size < k while "
    "overlapping another operation; bounded variant: rejection legal only with >= (segments-1)*k+1 stored values); the random "
    "start index is drawn from the scheduler PRNG through hook H1", ["empty_under_overlap"], execs_quick=1500, execs_thorough=20000)


def _with_big_sweeps(plan):
    """C06 quantifies over every construction the constructor accepts, 'including products above 2^16': sequential sweeps (fill, drain,
    bursts across the wrap-around) over large constructions, judged operation by operation by a sequential k-FIFO reference model."""
    base_targets, base_jobs, base_gates = plan["targets"], plan["jobs"], plan["gates"]

    def targets(tier):
        t = base_targets(tier)
        for extra in [("queues.norecl", "xrt-prod"), ("queues.R5", "xrt-prod"), ("queues.R2", "xrt-prod"), ("queues.norecl", "asan"), ("queues.R5", "asan")]:
            if extra not in t:
                t.append(extra)
        return t

    def jobs(tier, seed, list_configs):
        j = base_jobs(tier, seed, list_configs)
        execs = 3 if tier == "quick" else 20
        for t, v in [("queues.norecl", "xrt-prod"), ("queues.R5", "xrt-prod"), ("queues.R2", "xrt-prod"), ("queues.norecl", "asan"), ("queues.R5", "asan")]:
            for c in cfgs_matching(list_configs, t, v, r"^big_"):
                env = {"ASAN_OPTIONS": "detect_leaks=0:abort_on_error=0", "UBSAN_OPTIONS": "print_stacktrace=1"} if v == "asan" else {}
                j.append(dict(target=t, variant=v, timeout=300 if tier == "quick" else 1500, env=env,
                              args=["--cfg", c, "--mode", "sc", "--seed", str(seed + 31), "--execs", str(execs)]))
        return j

    def gates(tier, agg, counters, per_config, distinct):
        msgs = base_gates(tier, agg, counters, per_config, distinct)
        for c, minimum in {"big_ops": 1000000, "big_ring_wraps": 10, "big_pushes_rejected": 10, "big_pops_empty": 10}.items():
            if counters.get(c, 0) < minimum:
                msgs.append("counter %s = %d < %d" % (c, counters.get(c, 0), minimum))
        return msgs

    plan = dict(plan)
    plan.update(targets=targets, jobs=jobs, gates=gates,
                rule=plan["rule"] + "; plus (big_*) sequential sweeps of 10^5..10^6 operations each over constructions with k*segments in {40000, 65535, 65536, "
                "66560, 65792 (k=256), 2^17 (k=1)} and an unbounded queue with k=70000: fill until rejected, drain, random bursts across the wrap-around, "
                "every operation judged by a sequential k-FIFO reference model (rank of the popped value among the stored ones < k, EMPTY only when "
                "nothing is stored, rejection only with >= (segments-1)*k+1 stored), under xrt (heap shadow) and natively under ASan+UBSan")
    return plan


PLANS["C06"] = _with_big_sweeps(PLANS["C06"])
PLANS["C07"] = plan_queue_lin(
    "C07", r"_(uptr|raw|tok)$", R8 + [16, 17], R8 + RPLUS + [16, 17], True,
    "each evaluation = one generated queue program with tracked elements (unique_ptr<Tracked>, Tracked*, non-trivial movable Tok) "
    "followed by destruction of the queue at a random fill level; ownership registry: every value destroyed exactly once, never "
    "after hand-out, never by the queue for raw pointers, rejected values stay with the caller; heap oracle catches double frees",
    ["destroyed_with_elements"], execs_quick=1500, execs_thorough=20000)

def generic_jobs(list_configs, family, recls, pattern, variant, mode, execs, seed, window=16, extra=None, per_job=1):
    jobs = []
    for r in recls:
        t = "%s.R%d" % (family, r)
        cfgs = cfgs_matching(list_configs, t, variant, pattern)
        for i in range(0, len(cfgs), per_job):
            chunk = cfgs[i:i + per_job]
            args = ["--cfg", ",".join(chunk), "--mode", mode, "--seed", str(seed), "--execs", str(execs), "--window", str(window)]
            if extra:
                args += extra
            jobs.append(dict(target=t, variant=variant, args=args, timeout=3600))
    return jobs


def plan_reclaim(prop, pattern, execs_quick, execs_thorough, rule, gate_counters, weak_slice=False):
    recls = R8 + RPLUS + [17]  # 17 = eager hazard_eras (a scan on every retirement); eager hazard_pointer would only add witnesses of the hand-over finding

    def targets(tier):
        return [("reclaim.R%d" % r, "xrt-prod") for r in recls]

    def jobs(tier, seed, list_configs):
        execs = execs_quick if tier == "quick" else execs_thorough
        jobs = generic_jobs(list_configs, "reclaim", recls, pattern, "xrt-prod", "sc", execs, seed)
        if weak_slice:
            # the property quantifies over weak executions as well: a slice with a staleness window of 64 steps
            jobs += generic_jobs(list_configs, "reclaim", recls, pattern, "xrt-prod", "weak", max(100, execs // 10), seed + 7, window=64, per_job=2)
        return jobs

    def gates(tier, agg, counters, per_config, distinct):
        msgs = []
        if agg["execs"] == 0:
            msgs.append("no executions")
        if distinct < 100:
            msgs.append("only %d distinct non-trivial histories" % distinct)
        for c, minimum in gate_counters.items():
            if counters.get(c, 0) < minimum:
                msgs.append("counter %s = %d < %d" % (c, counters.get(c, 0), minimum))
        return msgs

    return dict(targets=targets, jobs=jobs, gates=gates, rule=rule, assumptions=ASSUME_XRT, level="exploration")


_RECLAIM_RULE = ("each evaluation = one generated protocol-conforming client program over 1-3 shared concurrent_ptr cells (2-4 threads plus up to 2 late "
                 "threads that start after another thread exited; publish / unlink+reclaim / acquire / acquire_if_equal / copy / move / swap / reset / "
                 "region_guard / deref) run under one seeded schedule, followed by a public-API-only flush by fresh threads; lifetime registry: guard table x "
                 "deleter events; distinct_nontrivial = distinct (program, call/return order, results) hashes with overlapping operations of different threads")
PLANS["C01"] = plan_reclaim("C01", r"^proto_", 6000, 40000, _RECLAIM_RULE,
                            {"destroyed_while_other_thread_guards": 1000, "destroyed_in_history": 10000, "guards_registered": 10000}, weak_slice=True)
PLANS["C02"] = plan_reclaim("C02", r"^proto_", 6000, 40000,
                            _RECLAIM_RULE + "; census after the flush: every retired node destroyed exactly once by the deleter instance passed to reclaim()",
                            {"destroyed_by_other_after_retirer_exit": 100, "destroyed_in_history": 10000})
def plan_c15():
    """(c)+(d): guard algebra and snapshot claims inside the concurrent reclaim protocol; (c) again as bounded-exhaustive and long
    random guard sequences per reclaimer (algebra.*); (a)+(b): native marked_ptr / concurrent_ptr bit model under ASan+UBSan."""
    base = plan_reclaim("C15", r"^proto_", 6000, 30000,
                        _RECLAIM_RULE + "; guard algebra checked after every copy/move/swap/reset/self-assignment; snapshot claims of acquire / "
                        "acquire_if_equal checked against the recorded value history of the source cell (one-sided interval reasoning). "
                        "PLUS algebra.*: for each of the 16 reclaimer configurations all sequences of 2 (thorough: 3) guard operations over 4 guards "
                        "from three start states and long random sequences racing a retiring thread, judged by a shared-ownership model of the guards "
                        "(values after every operation, no exception, no node destroyed while a guard holds it); release probe: a holder thread that has destroyed all "
                        "its guards while nobody else is around retires a probe node, which must be reclaimed within 2000 further retirements / region_guards "
                        "(observed maxima < 20): reset / destruction really ends the protection. PLUS markedptr (native, ASan+UBSan): "
                        "marked_ptr<T, M, U> for M = 0..32 and U in {16, 8, 4, 0}: corner and random canonical pointers x mark values, get/mark round trip, "
                        "value equality, reset, concurrent_ptr load/store/compare_exchange",
                        {"guards_registered": 10000, "exhaustive_sequences": 100000, "marked_ptr_combinations": 100000, "release_probes": 2000})
    recls = R8 + RPLUS

    def targets(tier):
        return base["targets"](tier) + [("algebra.R%d" % r, "xrt-prod") for r in recls] + [("markedptr", "asan")]

    def jobs(tier, seed, list_configs):
        jobs = base["jobs"](tier, seed, list_configs)
        for r in recls:
            t = "algebra.R%d" % r
            jobs.append(dict(target=t, variant="xrt-prod", timeout=3600,
                             args=["--cfg", "run_alg", "--mode", "sc", "--seed", str(seed), "--execs", "2000" if tier == "quick" else "20000"]))
            jobs.append(dict(target=t, variant="xrt-prod", timeout=3600,
                             args=["--cfg", "exh2_alg" if tier == "quick" else "exh2_alg,exh3_alg", "--mode", "sc", "--seed", str(seed), "--execs", "16"]))
        jobs.append(dict(target="markedptr", variant="asan", timeout=3600,
                         args=["--cfg", "all", "--seed", str(seed), "--execs", "10" if tier == "quick" else "200"]))
        return jobs

    return dict(base, targets=targets, jobs=jobs)


PLANS["C15"] = plan_c15()
PLANS["C17"] = plan_reclaim("C17", r"^gens_", 400, 4000,
                            "each evaluation = 6-10 generations (rounds) of 3-6 short-lived threads (late threads start after another thread exited, so "
                            "records of exited threads are adopted inside the history) running the reclaim protocol, each round followed by a flush by fresh "
                            "threads; C01/C02 oracles stay armed; census of live heap blocks at quiescent points after G and 2G rounds must not grow with the "
                            "number of threads created; for hazard_pointer / hazard_eras the number of active hazard pointers / eras that the allocation strategy "
                            "publishes (it scales the retire threshold and every scan) is sampled at the same quiescent points and must not grow either",
                            {"generation_rounds": 1000, "destroyed_by_other_after_retirer_exit": 100, "declared_slot_samples": 100})


def _with_slot_census(plan):
    """C17 also quantifies over threads that grew their slot arrays (dynamic hazard_pointer / hazard_eras strategies): the wide_* guard
    sequences of the slots scenario (fill phase: up to 3K+2 guards, eras bumped in between) run as many executions of one process, i.e.
    thousands of thread generations that adopt each other's grown control blocks; the live heap after the last thread of an execution
    has exited must stay bounded (reference = executions 24..47 of the process)."""
    base_targets, base_jobs, base_gates = plan["targets"], plan["jobs"], plan["gates"]

    def targets(tier):
        return base_targets(tier) + [("slots", "xrt-prod")]

    def jobs(tier, seed, list_configs):
        jobs = base_jobs(tier, seed, list_configs)
        for c in list_configs("slots", "xrt-prod"):
            if c.startswith("wide_") or (c.startswith("run_") and "_dyn_" in c):
                jobs.append(dict(target="slots", variant="xrt-prod", timeout=3600,
                                 args=["--cfg", c, "--mode", "sc", "--seed", str(seed * 100 + 17), "--execs", "1500" if tier == "quick" else "20000"]))
        return jobs

    def gates(tier, agg, counters, per_config, distinct):
        msgs = base_gates(tier, agg, counters, per_config, distinct)
        if counters.get("bookkeeping_census_samples", 0) < 5000:
            msgs.append("counter bookkeeping_census_samples = %d < 5000" % counters.get("bookkeeping_census_samples", 0))
        return msgs

    return dict(plan, targets=targets, jobs=jobs, gates=gates,
                rule=plan["rule"] + "; PLUS slots wide_* / run_*_dyn_*: 1500 (thorough 20000) consecutive executions per configuration in one process = "
                "two thread generations each whose holders grow the dynamic slot array (up to 3K+2 guards) and exit; the live heap after every execution "
                "(all threads exited) is compared with the maximum over executions 24..47 of the process (more than 4x + 64 KiB = bookkeeping-growth)")


PLANS["C17"] = _with_slot_census(PLANS["C17"])

def plan_c03():
    """Weak-memory slice of every scenario (production orders and the TSan build variant) + race detector."""
    fams_prod = [("queues", R8), ("reclaim", R8 + RPLUS)]
    fams_tsan = [("queues", [1, 2, 3, 4, 5, 7]), ("reclaim", [1, 2, 3, 4, 5, 6, 7, 12])]

    def targets(tier):
        t = [("queues.norecl", "xrt-prod"), ("queues.norecl", "xrt-tsan")]
        for simple in ("deque", "seqlock", "leftright"):
            t += [(simple, "xrt-prod"), (simple, "xrt-tsan")]
        t += [("harris.R%d" % r, "xrt-prod") for r in R8] + [("harris.R%d" % r, "xrt-tsan") for r in (1, 3, 5)]
        for fam, recls in fams_prod:
            t += [("%s.R%d" % (fam, r), "xrt-prod") for r in recls]
        for fam, recls in fams_tsan:
            t += [("%s.R%d" % (fam, r), "xrt-tsan") for r in recls]
        return t

    def jobs(tier, seed, list_configs):
        jobs = []
        windows = [16, 64] if tier == "quick" else [16, 64, 256]
        for w in windows:
            eq = 100 if tier == "quick" else 1500
            er = 300 if tier == "quick" else 4000
            jobs += queue_jobs(list_configs, R8, r".", "xrt-prod", "weak", eq, seed + w, norecl=True, window=w, per_job=3)
            jobs += queue_jobs(list_configs, fams_tsan[0][1], r".", "xrt-tsan", "weak", eq, seed + w + 1, norecl=True, window=w, per_job=3)
            jobs += generic_jobs(list_configs, "reclaim", R8 + RPLUS, r"^proto_", "xrt-prod", "weak", er, seed + w, window=w, per_job=2)
            jobs += generic_jobs(list_configs, "reclaim", fams_tsan[1][1], r"^proto_", "xrt-tsan", "weak", er, seed + w + 1, window=w, per_job=2)
            eh = 150 if tier == "quick" else 2000
            jobs += generic_jobs(list_configs, "harris", R8, r".", "xrt-prod", "weak", eh, seed + w, window=w, per_job=4)
            jobs += generic_jobs(list_configs, "harris", [1, 3, 5], r".", "xrt-tsan", "weak", eh, seed + w + 1, window=w, per_job=4)
            # x86-TSO engine (FIFO store buffers): distinguishes seq_cst stores / fences from release ones exactly
            jobs += queue_jobs(list_configs, R8, r".", "xrt-prod", "tso", eq, seed + w + 3, norecl=True, window=w, per_job=3)
            jobs += generic_jobs(list_configs, "reclaim", R8 + RPLUS, r"^proto_", "xrt-prod", "tso", er, seed + w + 3, window=w, per_job=2)
            jobs += generic_jobs(list_configs, "harris", R8, r".", "xrt-prod", "tso", eh, seed + w + 3, window=w, per_job=4)
            es = 1500 if tier == "quick" else 20000
            for simple in ("deque", "seqlock", "leftright"):
                cfgs = cfgs_matching(list_configs, simple, "xrt-prod", r".")
                for k in range(0, len(cfgs), 3):
                    jobs.append(dict(target=simple, variant="xrt-prod", timeout=3600,
                                     args=["--cfg", ",".join(cfgs[k:k + 3]), "--mode", "tso", "--seed", str(seed + w + 3),
                                           "--execs", str(es if simple != "leftright" else es * 2), "--window", str(w)]))
            for simple in ("deque", "seqlock", "leftright"):
                for variant in ("xrt-prod", "xrt-tsan"):
                    cfgs = cfgs_matching(list_configs, simple, variant, r".")
                    for k in range(0, len(cfgs), 3):
                        jobs.append(dict(target=simple, variant=variant, timeout=3600,
                                         args=["--cfg", ",".join(cfgs[k:k + 3]), "--mode", "weak", "--seed", str(seed + w + (2 if variant == "xrt-tsan" else 0)),
                                               "--execs", str(es if simple != "leftright" else es * 2), "--window", str(w)]))
        return jobs

    def gates(tier, agg, counters, per_config, distinct):
        msgs = []
        if agg["stale_reads"] == 0:
            msgs.append("no stale reads were injected")
        if agg["stale_sites"] < 20:
            msgs.append("only %d distinct code sites observed a stale read" % agg["stale_sites"])
        if agg["race_checks"] == 0:
            msgs.append("race detector saw no plain accesses")
        if distinct < 100:
            msgs.append("only %d distinct non-trivial histories" % distinct)
        return msgs

    rule = ("each evaluation = one generated program of one of the scenarios (queues, reclaim protocol, sets/maps, deque, seqlock, left_right) executed "
            "either on the x86-TSO engine (per-thread FIFO store buffers that drain after at most W steps or at seq_cst stores / RMWs / seq_cst fences) or "
            "in weak mode: loads may "
            "return any message not excluded by happens-before/coherence and superseded at most W scheduler steps ago, weak CAS fails spuriously, "
            "on the production memory orders (explicit fences) and on the TSan build variant; all scenario oracles run with happens-before precedence "
            "and a vector-clock race detector checks every plain access and every free; distinct_nontrivial as in the scenario's own check")
    return dict(targets=targets, jobs=jobs, gates=gates, rule=rule, assumptions=ASSUME_XRT + [
        "weak executions are a subset of RC11: no load buffering, seq_cst accesses are modelled as fence-access-fence, release sequences follow the C++17 rule",
        "races in which one side is an atomic operation (atomic access vs. plain initialisation / deallocation of the atomic object) are counted as diagnostics, not violations"],
        level="exploration")


PLANS["C03"] = plan_c03()

def plan_simple(prop, target, pattern, execs_quick, execs_thorough, rule, gate_counters, chunks=4):
    """Scenario without reclaimer parameter: split the executions of every configuration over several seeds/processes."""
    def targets(tier):
        return [(target, "xrt-prod")]

    def jobs(tier, seed, list_configs):
        execs = execs_quick if tier == "quick" else execs_thorough
        jobs = []
        for c in cfgs_matching(list_configs, target, "xrt-prod", pattern):
            for k in range(chunks):
                jobs.append(dict(target=target, variant="xrt-prod", timeout=3600,
                                 args=["--cfg", c, "--mode", "sc", "--seed", str(seed * 100 + k), "--execs", str(execs // chunks)]))
            # the machine these containers run on is not sequentially consistent: a slice on the x86-TSO engine (store buffers) and one
            # with stale reads (window 64); failed operations of worker threads are not judged there (see C03), everything else is
            jobs.append(dict(target=target, variant="xrt-prod", timeout=3600,
                             args=["--cfg", c, "--mode", "tso", "--seed", str(seed * 100 + 50), "--execs", str(max(200, execs // 8))]))
            jobs.append(dict(target=target, variant="xrt-prod", timeout=3600,
                             args=["--cfg", c, "--mode", "weak", "--seed", str(seed * 100 + 51), "--execs", str(max(200, execs // 8)), "--window", "64"]))
        return jobs

    def gates(tier, agg, counters, per_config, distinct):
        msgs = []
        if agg["execs"] == 0:
            msgs.append("no executions")
        if distinct < 100:
            msgs.append("only %d distinct non-trivial histories" % distinct)
        for c, minimum in gate_counters.items():
            if counters.get(c, 0) < minimum:
                msgs.append("counter %s = %d < %d" % (c, counters.get(c, 0), minimum))
        return msgs

    return dict(targets=targets, jobs=jobs, gates=gates, rule=rule, assumptions=ASSUME_XRT, level="exploration")


PLANS["C12"] = plan_simple(
    "C12", "deque", r".", 24000, 400000,
    "each evaluation = owner-only prefix of 0..64*capacity push/take pairs (moves top/bottom to an arbitrary offset), then one owner (3-11 push/pop) "
    "and 1-3 thieves (1-5 steals each) under one seeded schedule, then a drain; judged by a WGL search against a sequential deque in which a steal "
    "may fail while overlapping another operation; every returned pointer must be a pushed item; capacities 2/4/8, growing and fixed arrays",
    {"executions_with_growth": 200, "successful_concurrent_steals": 1000, "failed_steals_under_overlap": 10})

PLANS["C14"] = plan_simple(
    "C14", "seqlock", r".", 16000, 300000,
    "each evaluation = 1-2 writers (store / update / load) and 1-3 readers (load), <= 6 operations each, on seqlock<Blob<N,Align>, slots<S>> for sizes "
    "9..40 bytes (incl. sizes that are not multiples of the word size and alignments 1/2/4), slots 1/2/3/4/8, under one seeded schedule; every loaded "
    "value and every value handed to an update functor is decoded byte by byte against the pattern of the stored values; the history is judged by a WGL "
    "search against an atomic register (update = atomic read-modify-write)", {"loads_overlapping_writes": 1000})

PLANS["C13"] = plan_simple(
    "C13", "leftright", r".", 32000, 400000,
    "each evaluation = 1-2 writers (update = set both fields of the instance to a unique id, in two steps with a preemption point in between) and 1-3 "
    "readers, <= 5 operations each, under one seeded schedule (every seq_cst operation, mutex operation and yield is a scheduling point); functor "
    "overlap monitor per instance address, per-instance update logs, WGL search against an atomic register; instance types: a 3-word trivially "
    "copyable struct and a heap-owning type whose array is re-allocated by every update (a functor on the wrong instance touches freed memory); "
    "all three constructors (one source, two sources, default)", {"reads_between_switch_and_second_apply": 500}, chunks=16)

def plan_harris(prop, pattern, execs_quick, execs_thorough, rule, gate_counters, seq=False, hold=False, eager=()):
    def targets(tier):
        recls = R8 if tier == "quick" else R8 + [8, 9, 11, 12]
        return [("harris.R%d" % r, "xrt-prod") for r in recls + list(eager)]

    def jobs(tier, seed, list_configs):
        recls = R8 if tier == "quick" else R8 + [8, 9, 11, 12]
        execs = execs_quick if tier == "quick" else execs_thorough
        j = generic_jobs(list_configs, "harris", recls, pattern, "xrt-prod", "sc", execs, seed, per_job=2 if tier == "quick" else 1)
        # eager hazard_pointer / hazard_eras (threshold 0): an unprotected retired node is freed at once, the heap shadow sees every stale access
        j += generic_jobs(list_configs, "harris", list(eager), pattern, "xrt-prod", "sc", execs, seed + 5, per_job=2 if tier == "quick" else 1)
        if seq:
            # sequential differential runs against std::map: 729 executions = the complete enumeration of all sequences of 4 operations
            # (243 slices) + 486 long random sequences per configuration
            j += generic_jobs(list_configs, "harris", recls, r"^seq_", "xrt-prod", "sc", 729 if tier == "quick" else 7290, seed + 17, per_job=2)
        if hold:
            # single-threaded sequences in which an iterator is held across updates of the same thread, then advanced or passed to erase
            j += generic_jobs(list_configs, "harris", recls, r"^hold_", "xrt-prod", "sc", 400 if tier == "quick" else 4000, seed + 23, per_job=2)
        return j

    def gates(tier, agg, counters, per_config, distinct):
        msgs = []
        if agg["execs"] == 0:
            msgs.append("no executions")
        if distinct < 100:
            msgs.append("only %d distinct non-trivial histories" % distinct)
        for c, minimum in gate_counters.items():
            if counters.get(c, 0) < minimum:
                msgs.append("counter %s = %d < %d" % (c, counters.get(c, 0), minimum))
        return msgs

    return dict(targets=targets, jobs=jobs, gates=gates, rule=rule, assumptions=ASSUME_XRT, level="exploration")


PLANS["C08"] = plan_harris(
    "C08", r"^lin_", 5000, 40000,
    "each evaluation = 2-4 threads x <= 6 operations (emplace / emplace_or_get / get_or_emplace(_lazy) / operator[] / erase(key) / find+erase(iterator) / "
    "find / contains) over a universe of 2-4 keys on harris_michael_list_based_set (less / greater) and harris_michael_hash_map (1/2/4 buckets, identity / "
    "constant / order-reversing / two-valued hash, memoize_hash on/off, int keys and a non-trivially movable key type whose moved-from value differs) with unique values per insertion, plus a final iteration (a third of the executions use 5-8 mostly present keys instead, an eighth a shaped program: one thread "
    "inserts a high key while another inserts twice behind its predecessor, erases the predecessor and inserts again - searches restarted in the middle of a list); "
    "reclaimers: the 8 standard ones plus eager hazard_pointer / hazard_eras (scan on every retirement); judged per key "
    "(P-compositionality) by a WGL search against a sequential set/map; plus (seq_*) single-threaded differential runs against std::map / std::set "
    "for every configuration and reclaimer: the complete enumeration of all 104 976 sequences of 4 operations over 9 operation kinds x 2 keys, and "
    "random sequences of 100-500 operations over 3-40 keys, every result compared with the reference container, the whole content compared by "
    "iteration (the set in the order of its compare functor), and the iterator returned by erase(iterator) checked (set: the successor)",
    {"wgl_nodes": 1000, "seq_exhaustive_sequences": 104976, "seq_random_sequences": 1000, "shaped_restart_programs": 1000, "wide_universe_executions": 10000},
    seq=True, eager=(16, 17))
PLANS["C09"] = plan_harris(
    "C09", r"^trav_", 5000, 40000,
    "each evaluation = one traversing thread (1-2 full traversals with pre-/post-increment, iterator copies, optional erase(iterator) at position 0-2) and "
    "1-3 updating threads over 2-4 keys; traversal monitor with one-sided interval facts: no yield of an element that is definitely absent, no element "
    "yielded twice without re-insertion, every element definitely present during the whole traversal is yielded; heap shadow for reclaimed nodes; the "
    "updates (incl. the traverser's erase) are checked per key for linearizability as in C08; plus (hold_*) single-threaded random sequences of "
    "100-500 operations in which an iterator obtained by find() is held across 0-2 updates of the same thread (also of its own key) and then "
    "dereferenced and advanced or passed to erase(iterator): it must still refer to its element and move to exactly the element that follows it in a "
    "fresh iteration (set: in compare order), the content is compared with std::map", {"traversals": 1000, "traversal_yields": 1000, "hold_episodes": 10000}, hold=True, eager=(17,))

VYU_RECLS = [1, 2, 3, 4, 5, 6, 7]  # vyukov_hash_map does not compile with lock_free_ref_count


def plan_vyukov(prop, pattern, execs_quick, execs_thorough, rule, gate_counters):
    def targets(tier):
        recls = VYU_RECLS if tier == "quick" else VYU_RECLS + [8, 9, 11, 12]
        return [("vyukov.R%d" % r, "xrt-prod") for r in recls]

    def jobs(tier, seed, list_configs):
        recls = VYU_RECLS if tier == "quick" else VYU_RECLS + [8, 9, 11, 12]
        execs = execs_quick if tier == "quick" else execs_thorough
        return generic_jobs(list_configs, "vyukov", recls, pattern, "xrt-prod", "sc", execs, seed, per_job=5 if tier == "quick" else 2)

    def gates(tier, agg, counters, per_config, distinct):
        msgs = []
        if agg["execs"] == 0:
            msgs.append("no executions")
        if distinct < 100:
            msgs.append("only %d distinct non-trivial histories" % distinct)
        for c, minimum in gate_counters.items():
            if counters.get(c, 0) < minimum:
                msgs.append("counter %s = %d < %d" % (c, counters.get(c, 0), minimum))
        return msgs

    return dict(targets=targets, jobs=jobs, gates=gates, rule=rule, assumptions=ASSUME_XRT, level="exploration")


PLANS["C10"] = plan_vyukov(
    "C10", r"^(lin|seq)_", 1500, 8000,
    "each evaluation = 2-4 threads x <= 6 operations (emplace / get_or_emplace_lazy / erase / extract / try_get_value / find / find+erase(iterator)) "
    "over 2-8 keys that share buckets, on all five key/value storage specialisations, initial capacities 1/2/4 (repeated grows) and 128/256 (extension "
    "items) with colliding hashes, unique checksummed values per insertion, final iteration; judged per key by a WGL search against a sequential map; "
    "plus single-threaded random sequences (20-60 operations incl. traversals with erase(iterator)) compared with std::map; a quarter of those on the "
    "128/256-bucket tables are crowded: 14-40 keys that all collide (for ever / up to 128 / up to 256 buckets), 80-200 operations, so that the extension "
    "pool runs out and the table grows while its buckets carry extension items (re-created extension items in the new block)",
    {"lockfree_reads_under_overlap": 1000, "sequential_ops": 1000, "seq_growth_with_extension_items": 200})
PLANS["C11"] = plan_vyukov(
    "C11", r"^(iter|seq)_", 1500, 8000,
    "each evaluation = one traversing thread (begin / ++ / erase(iterator) by position mask / reset) with 1-3 threads doing try_get_value, emplace, "
    "erase, extract, find on the same buckets; the traverser's erases are part of the per-key linearizability check (exclusive: find+erase(iterator) "
    "is one atomic step), no key yielded twice, afterwards a managed thread erases/re-inserts/reads every key (a leaked bucket lock is a hang) and "
    "the final iteration must match the model; plus the single-threaded differential runs of C10", {"traversals": 500, "iterator_erases": 200})

def plan_c16():
    """Solo runs (freeze strategy) over every scenario: a lock-free operation continued alone must finish in bounded steps."""
    def targets(tier):
        t = [("queues.norecl", "xrt-prod"), ("deque", "xrt-prod"), ("seqlock", "xrt-prod"), ("leftright", "xrt-prod")]
        t += [("queues.R%d" % r, "xrt-prod") for r in R8]
        t += [("reclaim.R%d" % r, "xrt-prod") for r in R8 + RPLUS]
        t += [("harris.R%d" % r, "xrt-prod") for r in R8]
        t += [("vyukov.R%d" % r, "xrt-prod") for r in VYU_RECLS]
        return t

    def jobs(tier, seed, list_configs):
        f = ["--freeze"]
        q = 1 if tier == "quick" else 12
        jobs = queue_jobs(list_configs, R8, r".", "xrt-prod", "sc", 250 * q, seed, norecl=True, extra=f, per_job=4)
        jobs += generic_jobs(list_configs, "reclaim", R8 + RPLUS, r"^proto_", "xrt-prod", "sc", 1200 * q, seed, extra=f, per_job=2)
        jobs += generic_jobs(list_configs, "harris", R8, r".", "xrt-prod", "sc", 250 * q, seed, extra=f, per_job=4)
        jobs += generic_jobs(list_configs, "vyukov", VYU_RECLS, r"^(lin|iter)_", "xrt-prod", "sc", 100 * q, seed, extra=f, per_job=10)
        for simple, n in (("deque", 3000), ("seqlock", 2000), ("leftright", 12000)):
            cfgs = cfgs_matching(list_configs, simple, "xrt-prod", r".")
            for k in range(0, len(cfgs), 2):
                jobs.append(dict(target=simple, variant="xrt-prod", timeout=3600,
                                 args=["--cfg", ",".join(cfgs[k:k + 2]), "--mode", "sc", "--seed", str(seed), "--execs", str(n * q), "--freeze"]))
        return jobs

    def gates(tier, agg, counters, per_config, distinct):
        msgs = []
        if agg["solo_episodes"] < 5000:
            msgs.append("only %d solo episodes" % agg["solo_episodes"])
        midop = sum(v for k, v in counters.items() if k.endswith("_others_midop"))
        if midop < 1000:
            msgs.append("only %d solo episodes with another thread frozen inside an operation" % midop)
        return msgs

    rule = ("each evaluation = one execution of one of the scenario programs with the freeze strategy: at a random step the thread that is inside an "
            "operation documented lock-free (or the next one to enter such an operation) continues ALONE - all other threads stay frozen wherever "
            "they are (mid CAS loop, holding a bucket lock, inside thread_data destructors) - until the operation returns; its own steps are counted "
            "against the bound 20000; blocking on a mutex held by a frozen thread is reported as well; distinct_nontrivial as in the scenario's own check")
    return dict(targets=targets, jobs=jobs, gates=gates, rule=rule, assumptions=ASSUME_XRT + [
        "reach is the sampled reachable states (one solo episode per execution), not all of them",
        "operations tagged lock-free: all queue operations except strong vyukov_bounded ones, Harris-Michael operations and traversals, deque operations, "
        "vyukov_hash_map::try_get_value, seqlock::load with more than one slot, left_right::read, every guard/region operation of the reclaim protocol"],
        level="exploration")


PLANS["C16"] = plan_c16()

def plan_c18():
    """Slot accounting: random long sequences racing a retirer (run_*), bounded-exhaustive sequences cut into 16 slices (exh*)."""
    def targets(tier):
        return [("slots", "xrt-prod")]

    def jobs(tier, seed, list_configs):
        jobs = []
        cfgs = list_configs("slots", "xrt-prod")
        execs = 6000 if tier == "quick" else 40000
        for c in cfgs:
            if c.startswith(("run_", "wide_")):
                chunks = 1 if tier == "quick" else 4
                for k in range(chunks):
                    jobs.append(dict(target="slots", variant="xrt-prod", timeout=3600,
                                     args=["--cfg", c, "--mode", "sc", "--seed", str(seed * 100 + k), "--execs", str(execs // chunks)]))
            elif c.startswith("exh2_") or (tier != "quick" and c.startswith("exh3_")):
                # 16 executions = the 16 slices of the enumeration; the seed only selects the schedule strategy of the single thread
                jobs.append(dict(target="slots", variant="xrt-prod", timeout=3600,
                                 args=["--cfg", c, "--mode", "sc", "--seed", str(seed), "--execs", "16"]))
        if tier != "quick":
            for c in cfgs:
                if c.startswith(("run_", "wide_")):
                    jobs.append(dict(target="slots", variant="xrt-prod", timeout=3600,
                                     args=["--cfg", c, "--mode", "weak", "--seed", str(seed + 7), "--execs", "2000", "--window", "64"]))
        return jobs

    def gates(tier, agg, counters, per_config, distinct):
        msgs = []
        if agg["execs"] == 0:
            msgs.append("no executions")
        for c, minimum in {"guard_ops": 100000, "exceptions": 1000, "ops_with_K_other_guards": 10000, "exhaustive_sequences": 100000, "release_probes": 2000}.items():
            if counters.get(c, 0) < minimum:
                msgs.append("counter %s = %d < %d" % (c, counters.get(c, 0), minimum))
        return msgs

    return dict(targets=targets, jobs=jobs, gates=gates, assumptions=ASSUME_XRT, level="exploration",
                rule="each evaluation = either (run_*) two generations of 1-2 holder threads executing 8-120 random guard_ptr operations (acquire, "
                     "acquire_if_equal, reset, copy/move assignment and construction, construction from marked_ptr, swap, self-assignment) over K+2 guards while "
                     "another thread keeps replacing and retiring the nodes (scan after every retirement), or (exh*) one of 16 slices of ALL sequences of 2 (3 for "
                     "K<=2) operations from the start states 'no guard / K-1 guards / K guards hold a node'; hazard_pointer and hazard_eras, static and dynamic "
                     "strategy, K in {1,2,3,5}; (wide_*) the same random sequences for the dynamic strategies over up to 3K+2 guards with a fill phase (every guard "
                     "acquires, released in LIFO / FIFO / random order), so that the slot array grows several times and grown control blocks are re-used by later "
                     "threads. A model of which guards protect what decides for every operation whether bad_hazard_*_alloc must not (fewer than K "
                     "other protecting guards, or dynamic strategy) or must (hazard_pointer static with all K in use) be thrown, that a failed operation leaves every "
                     "other guard untouched, and a registry flags nodes destroyed while a guard protects them")


PLANS["C18"] = plan_c18()

# ---------------------------------------------------------------------------------------------------- native sanitizer slices
# The same scenario sources built with the stock sanitizers (variants asan = ASan+UBSan, tsan = ThreadSanitizer on the library's
# TSan build variant) and xrt/native.cpp instead of the controlled runtime: real parallel threads, the same histories and oracles,
# heap / UB / race verdicts by the vendor runtimes. Configurations with a known finding that would kill the process are left out
# (hazard_pointer guard hand-over: reclaimers 1 and 8; vyukov_hash_map with hazard_eras; nikolaev_bounded_queue capacity 1).
_NR = [0, 2, 3, 4, 5, 7]
NATIVE = {
    "C01": [("reclaim", _NR, r"^proto_")],
    "C02": [("reclaim", _NR, r"^proto_")],
    "C17": [("reclaim", _NR, r"^gens_")],
    "C04": [("queues", _NR, r"^(ms|ram|nik)_")],
    "C05": [("queues.norecl", None, r"^(vyu_|nib_c[2-9])")],
    "C06": [("queues", [2, 3, 5, 7], r"^kir_"), ("queues.norecl", None, r"^kib_")],
    "C07": [("queues", [0, 2, 5], r"."), ("queues.norecl", None, r"^(vyu_|nib_c[2-9]|kib_)")],
    "C08": [("harris", _NR, r"^(lin|seq)_")],
    "C09": [("harris", _NR, r"^(trav|hold)_")],
    "C10": [("vyukov", [3, 4, 5, 6, 7], r"^(lin|seq)_")],
    "C11": [("vyukov", [3, 4, 5, 6, 7], r"^(iter|seq)_")],
    "C12": [("deque", None, r".")],
    "C13": [("leftright", None, r".")],
    "C14": [("seqlock", None, r".")],
    "C15": [("algebra", _NR, r"^run_alg")],
    "C18": [("slots", None, r"^(run|wide)_he_")],
    "C03": [("queues", [2, 5], r"."), ("queues.norecl", None, r"^(vyu_|nib_c[2-9]|kib_)"), ("reclaim", [2, 5], r"^proto_"), ("harris", [5], r"."),
            ("vyukov", [5], r"^(lin|iter)_"), ("deque", None, r"."), ("seqlock", None, r"."), ("leftright", None, r".")],
}


def _native_variants(prop, fam, recl):
    # Stock ThreadSanitizer does not model the seq_cst fences hazard_eras / hazard_pointer rely on; in the guard-sequence scenarios
    # (slots, algebra) and with hazard_eras it reports races that the fence-aware detector of xrt does not confirm on the same TSan
    # build variant (DESIGN.md 0.5) - those combinations run under ASan+UBSan only.
    vs = ("tsan",) if prop == "C03" else ("asan", "tsan")
    if fam in ("slots", "algebra") or recl in (1, 2, 8, 9):
        vs = tuple(v for v in vs if v != "tsan")
    return vs


def _native_targets(prop):
    out = []
    for fam, recls, _pat in NATIVE.get(prop, []):
        for r in ([None] if recls is None else recls):
            n = fam if r is None else "%s.R%d" % (fam, r)
            for v in _native_variants(prop, fam, r):
                out.append((n, v))
    return out


def native_targets(prop, tier):
    return _native_targets(prop)


def native_jobs(prop, tier, seed, list_configs):
    jobs = []
    execs = 300 if tier == "quick" else 4000
    for fam, recls, pat in NATIVE.get(prop, []):
        for r in ([None] if recls is None else recls):
            n = fam if r is None else "%s.R%d" % (fam, r)
            for v in _native_variants(prop, fam, r):
                cfgs = cfgs_matching(list_configs, n, v, pat)
                if not cfgs:
                    continue
                env = {"ASAN_OPTIONS": "detect_leaks=0:abort_on_error=0", "UBSAN_OPTIONS": "print_stacktrace=1",
                       "TSAN_OPTIONS": "halt_on_error=1:report_signal_unsafe=0:second_deadlock_stack=1"}
                jobs.append(dict(target=n, variant=v, timeout=(240 if tier == "quick" else 1500), env=env,
                                 args=["--cfg", ",".join(cfgs), "--mode", "sc", "--seed", str(seed + 1000), "--execs", str(execs)]))
    return jobs


# ---------------------------------------------------------------------------------------------------- manifest metadata
NOT_YET = {}
_LEVEL_NOTE = ("Trusted base: the xrt runtime (scheduler, vector clocks, heap shadow) and the sequential models in monitors/; gcc 12 -O1 "
               "TSan-instrumented build of the header-only library from /repo's working tree; executions explored = seeded sample, not all schedules.")
META = {
    "C18": dict(design_ref="DESIGN.md 5/C18", technique="runtime monitoring: reference-model monitor of slot ownership (exception expected / forbidden per operation) over bounded-exhaustive and random guard operation sequences (up to 3K+2 guards for the dynamic strategies) + destroyed-while-guarded registry + release probe (bounded progress of reclamation after all guards are gone) + heap shadow",
                level_text="Every operation of every enumerated or generated sequence is judged by the model: no bad_hazard_*_alloc while fewer than K other guards protect "
                           "something (slot leaks, slots held by empty guards), the exception when hazard_pointer's K slots are all in use, untouched guards after a failed "
                           "operation, protection of every guarded node against a concurrently scanning thread, across thread exit and control-block reuse.",
                level_note=_LEVEL_NOTE),
    "C16": dict(design_ref="DESIGN.md 5/C16", technique="runtime monitoring: solo-run step counter under the controlled scheduler (all other threads frozen mid-operation), bounded-progress restatement of lock-freedom",
                level_text="Lock-freedom is restated as bounded solo progress: from sampled reachable intermediate states the victim must finish its operation within 20 000 of "
                           "its own steps while everybody else is stopped; the observed maximum per operation kind is reported so that the margin is visible.",
                level_note=_LEVEL_NOTE + " No finite run decides unbounded liveness; the bound is two orders of magnitude above the observed maxima."),
    "C10": dict(design_ref="DESIGN.md 5/C10", technique="runtime monitoring: recorded histories under a controlled scheduler + per-key WGL linearizability oracle with checksummed per-insertion values + differential monitor vs std::map",
                level_text="All five storage specialisations, grows from capacity 1 and extension items at 128/256 buckets inside the histories, lock-free readers overlapping "
                           "erases that move items between slots; torn or foreign values are model violations.",
                level_note=_LEVEL_NOTE),
    "C11": dict(design_ref="DESIGN.md 5/C11", technique="runtime monitoring: traversal/erase monitor, per-key WGL oracle with iterator erases as atomic steps, quiescent liveness probe (decidable hang), differential monitor vs std::map",
                level_text="Iterator traversal with erase(iterator) at arbitrary positions (handles obtained by copy elision, move assignment and move construction) concurrently with lock-free readers and writers waiting for the same buckets; every bucket "
                           "must be usable afterwards (probe by a managed thread, hang = violation).",
                level_note=_LEVEL_NOTE),
    "C08": dict(design_ref="DESIGN.md 5/C08", technique="runtime monitoring: recorded histories under a controlled scheduler + per-key WGL linearizability oracle (set / map with per-insertion value ids) + differential monitor vs std::map / std::set over bounded-exhaustive and long random single-threaded sequences",
                level_text="Conflict-maximising key universes (2-4 keys), colliding and order-reversing hashes, memoize on/off, 8 reclaimers (12 in the thorough tier); "
                           "every per-key sub-history is decided exactly; every single-threaded sequence of 4 operations over two keys and long random "
                           "sequences are compared step by step with std::map / std::set.",
                level_note=_LEVEL_NOTE),
    "C09": dict(design_ref="DESIGN.md 5/C09", technique="runtime monitoring: traversal monitor (yield log vs recorded update history, one-sided interval reasoning) + heap shadow oracle + reference-model monitor (std::map) over single-threaded sequences with iterators held across updates",
                level_text="Traversals overlapping inserts and erases, including erase of the current element under the iterator, iterator copies and the iterator's own "
                           "erase; only definite facts are used, so a verdict never depends on timing luck.",
                level_note=_LEVEL_NOTE),
    "C13": dict(design_ref="DESIGN.md 5/C13", technique="runtime monitoring: functor overlap monitor on instance addresses + per-instance update log + WGL linearizability oracle (register) + race detector on the instances' plain fields",
                level_text="Readers arriving between the writer's instance switch and its version toggle and back-to-back updates are produced by the scheduler; no read functor "
                           "may run on an instance while an update functor modifies it, both instances receive every update exactly once in the same order, reads are linearizable.",
                level_note=_LEVEL_NOTE),
    "C14": dict(design_ref="DESIGN.md 5/C14", technique="runtime monitoring: byte-pattern oracle over all sizeof(T) bytes of every loaded value + WGL linearizability oracle (register / read-modify-write)",
                level_text="11 element type / slot-count combinations including sizes and alignments below a word; every load result is checked bit for bit, histories are "
                           "decided exactly against an atomic register.",
                level_note=_LEVEL_NOTE),
    "C12": dict(design_ref="DESIGN.md 5/C12", technique="runtime monitoring: recorded histories under a controlled scheduler + WGL linearizability oracle (deque with failing steals) + pushed-item ledger",
                level_text="Owner/thief histories with growth of the array inside the concurrent part and top/bottom moved to arbitrary offsets beforehand; every history is decided "
                           "exactly by the linearizability search; a returned pointer that is not a pushed item is a violation before it is dereferenced.",
                level_note=_LEVEL_NOTE),
    "C03": dict(design_ref="DESIGN.md 5/C03 and 3.3", technique="runtime monitoring: happens-before (vector clock) race detector on plain accesses + fault injection of stale reads / spurious CAS failures under a view-based memory model, all scenario oracles re-run",
                level_text="The runtime keeps per-location store histories and vector clocks and lets loads return stale-but-legal messages on the production memory orders and "
                           "on the TSan variant; every other oracle (heap shadow, linearizability, ownership, lifetime) is re-evaluated on these executions with happens-before "
                           "precedence. A weakened release/acquire shows up as a race the first time both accesses occur in any order.",
                level_note=_LEVEL_NOTE + " Only standard-allowed behaviours are injected (more ordering than C++ requires wherever the model approximates)."),
    "C01": dict(design_ref="DESIGN.md 5/C01", technique="runtime monitoring: lifetime registry (guard table x destructor/deleter events) + never-reusing heap with freed shadow, controlled scheduler",
                level_text="All 16 reclaimer configurations (LFRC, static/dynamic HP and HE, QSBR, stamp-it, 8 generic_epoch_based configurations) with thresholds and scan "
                           "frequencies chosen so that reclamation happens inside 10-40 operation histories; every destructor event is checked against the set of guards "
                           "that the harness knows to be protecting, every access through a guard against the freed-memory shadow.",
                level_note=_LEVEL_NOTE),
    "C02": dict(design_ref="DESIGN.md 5/C02", technique="runtime monitoring: per-object retire/deleter/destructor counters + end-of-history census after a bounded public-API flush",
                level_text="Same executions as C01; exactly-once destruction, deleter identity (stateful deleter tokens) and hand-over of retire lists of exited threads are "
                           "decided at the quiescent end after a flush whose iteration bound (10 000) is two orders of magnitude above what the slowest scheme needs.",
                level_note=_LEVEL_NOTE + " 'Eventually' is restated as bounded progress of the flush."),
    "C15": dict(design_ref="DESIGN.md 5/C15 and 0.2", technique="runtime monitoring: reference-model monitors - shared-ownership model of guards over bounded-exhaustive and random guard operation sequences for all 16 reclaimer configurations, value history of cells for snapshot claims, release probe (a thread that destroyed all its guards must not delay reclamation: bounded progress), native ASan+UBSan bit-model check of marked_ptr/concurrent_ptr",
                level_text="(a)(b) marked_ptr for all mark widths 0..32 and four upper/lower splits against a bit model, concurrent_ptr as atomic marked_ptr, under "
                           "ASan+UBSan; (c) every sequence of 2 (thorough: 3) guard operations over 4 guards from three start states plus long random sequences "
                           "racing a retiring thread for each reclaimer, and the guard algebra inside the concurrent reclaim protocol; (d) snapshot claims of acquire / "
                           "acquire_if_equal against the recorded value history of the source while other threads keep replacing it.",
                level_note=_LEVEL_NOTE),
    "C17": dict(design_ref="DESIGN.md 5/C17", technique="runtime monitoring: allocation census and census of the published hazard pointer / era counts at quiescent points across thread generations + footprint census over thousands of thread generations of one process (dynamic slot arrays) + C01/C02 oracles across control-block reuse",
                level_text="6-10 generations of short-lived threads per execution with adoption of exited threads' records inside the history; the number of live heap blocks "
                           "at quiescent points must be independent of the number of threads ever created; for the dynamic hazard_pointer / hazard_eras strategies the live heap after "
                           "every execution of a process (threads that grew their slot arrays and exited) must stay within 4x + 64 KiB of its value after warm-up.",
                level_note=_LEVEL_NOTE),
    "C04": dict(design_ref="DESIGN.md 5/C04", technique="runtime monitoring: recorded histories under a controlled scheduler + WGL linearizability oracle (FIFO model), heap shadow oracle",
                level_text="Every generated program is executed for real (real threads, real reclaimers) under seeded hostile schedules with node sizes 1-16 so that "
                           "node hand-over, finalisation and reclamation happen inside 10-40 operation histories; each history plus final drain is decided by an exact "
                           "linearizability search. Held = no non-linearizable history, crash, hang or heap error among the executions explored.",
                level_note=_LEVEL_NOTE),
    "C05": dict(design_ref="DESIGN.md 5/C05", technique="runtime monitoring: recorded histories + WGL oracle (bounded FIFO, in-flight slack, spurious weak failures)",
                level_text="Bounded queues with capacities 1-8 (several wrap-arounds per history), strong and weak operations mixed (vyukov_bounded_queue under both default_to_weak policies), judged by the exact linearizability "
                           "search against a bounded FIFO with the weakest reading of 'full' the property allows.",
                level_note=_LEVEL_NOTE),
    "C06": dict(design_ref="DESIGN.md 5/C06", technique="runtime monitoring: recorded histories + WGL oracle (k-out-of-order FIFO), recorded random start index (hook H1) + sequential reference-model monitor over long sweeps of large constructions (k*segments around and above 2^16)",
                level_text="k in 1..4, 1-5 segments, all reclaimers the queue compiles with; slot choice is a recorded scheduler decision; conservation and k-relaxation are "
                           "decided per history by the linearizability search against the k-FIFO model; constructions with k*segments from 40000 to 2^17 are swept "
                           "sequentially (fill / drain / bursts across the wrap-around) against a reference model.",
                level_note=_LEVEL_NOTE),
    "C07": dict(design_ref="DESIGN.md 5/C07", technique="runtime monitoring: tracked element objects (ownership state machine) + census after queue destruction + heap shadow (double free)",
                level_text="All seven queue types with unique_ptr, raw pointer and non-trivial movable elements; queues are destroyed at random fill levels including after "
                           "racing producers overshot a full node; every element must be destroyed exactly once by its rightful owner.",
                level_note=_LEVEL_NOTE),
}
