"""Property plans for bin/vcheck: build targets, job lists per tier, attribution of oracle kinds, non-vacuity gates."""
import re

R8 = list(range(0, 8))
RPLUS = list(range(8, 16))
RNAMES = {0: "lfrc", 1: "hp_static", 2: "he_static", 3: "qsbr", 4: "stamp_it", 5: "ebr_sf1", 6: "nebr_sf1", 7: "debra_sf1",
          8: "hp_dynamic", 9: "he_dynamic", 10: "lfrc_tl2_pad", 11: "geb_n2_abandon_always", 12: "geb_all_abandon_thr2_lazy",
          13: "geb_sf0_one_none", 14: "ebr_sf2", 15: "debra_sf2_abandon"}

TARGETS = {}
for n in range(16):
    TARGETS["queues.R%d" % n] = dict(src="scenarios/queues.cpp", defs=["-DXV_RECL=%d" % n])
TARGETS["queues.norecl"] = dict(src="scenarios/queues.cpp", defs=["-DXV_NORECL"])

GENERIC_KINDS = {"use-after-free", "wild-access", "double-free", "bad-free", "crash", "hang", "deadlock", "watchdog"}
RACE_KINDS = {"race", "race-free", "race-free-vs-atomic"}


def queue_lin_prop(config):
    if config.startswith(("ms_", "ram_", "nik_")):
        return "C04"
    if config.startswith(("vyu_", "nib_")):
        return "C05"
    if config.startswith(("kir_", "kib_")):
        return "C06"
    return "C04"


def attribute(scenario, config, kind, primary, weak):
    """Which properties does a violation of this oracle kind, seen in this scenario/config, refute?
    First entry = primary property."""
    props = []
    fam = scenario.split(".")[0]
    if kind in RACE_KINDS:
        props = ["C03"]
    elif fam == "queues":
        lin = queue_lin_prop(config)
        if kind.startswith("elem-"):
            props = ["C07"]
        elif kind in ("not-linearizable", "drain-incomplete"):
            props = [lin]
        elif kind in ("solo-bound", "solo-blocked"):
            props = ["C16"]
        else:  # crashes, heap errors, hangs: the history is broken for every property this scenario serves
            props = [lin, "C07"]
    else:
        props = [primary] if primary else []
    if weak and "C03" not in props:
        props.append("C03")
    return props


def cfgs_matching(list_configs, target, variant, pattern):
    rx = re.compile(pattern)
    return [c for c in list_configs(target, variant) if rx.search(c)]


def queue_jobs(list_configs, recls, pattern, variant, mode, execs, seed, norecl=False, window=16, extra=None, per_job=4):
    jobs = []
    targets = (["queues.norecl"] if norecl else []) + ["queues.R%d" % r for r in recls]
    for t in targets:
        cfgs = cfgs_matching(list_configs, t, variant, pattern)
        # a few configurations per process: reclaimer state carries over between them, replay re-runs the same list
        for i in range(0, len(cfgs), per_job):
            chunk = cfgs[i:i + per_job]
            args = ["--cfg", ",".join(chunk), "--mode", mode, "--seed", str(seed), "--execs", str(execs), "--window", str(window)]
            if extra:
                args += extra
            jobs.append(dict(target=t, variant=variant, args=args, timeout=3600))
    return jobs


ASSUME_XRT = [
    "xrt scheduler preempts only at instrumented events (atomics, fences, mutex ops, optionally plain accesses), not between arbitrary instructions",
    "gcc 12 -O1 with -fsanitize=thread instrumentation; the shipped -O2 build is exercised only by the baseline suite",
    "verdicts cover only the executions explored (seeded random schedules over generated programs)",
]


def plan_queue_lin(prop, pattern, recls_quick, recls_thorough, norecl, rule, gate_counter=None):
    def targets(tier):
        recls = recls_quick if tier == "quick" else recls_thorough
        t = [("queues.R%d" % r, "xrt-prod") for r in recls]
        if norecl:
            t.append(("queues.norecl", "xrt-prod"))
        return t

    def jobs(tier, seed, list_configs):
        recls = recls_quick if tier == "quick" else recls_thorough
        execs = 400 if tier == "quick" else 6000
        return queue_jobs(list_configs, recls, pattern, "xrt-prod", "sc", execs, seed, norecl=norecl, per_job=2 if tier == "quick" else 1)

    def gates(tier, agg, counters, per_config, distinct):
        msgs = []
        if agg["execs"] == 0:
            msgs.append("no executions")
        if distinct < 100:
            msgs.append("only %d distinct non-trivial histories" % distinct)
        for pc, v in per_config.items():
            if v["execs"] and v["nontrivial"] == 0:
                msgs.append("config %s produced no overlapping history" % pc)
        if gate_counter:
            for c in gate_counter:
                if counters.get(c, 0) == 0:
                    msgs.append("counter %s is zero" % c)
        return msgs

    return dict(targets=targets, jobs=jobs, gates=gates, rule=rule, assumptions=ASSUME_XRT, level="exploration")


PLANS = {}
PLANS["C04"] = plan_queue_lin(
    "C04", r"^(ms|ram|nik)_", R8, R8 + RPLUS, False,
    "each evaluation = one generated program (2-4 threads x <=6 push/try_pop/pop, sequential prefix, final drain) run under one "
    "seeded schedule of the controlled runtime and judged by a WGL linearizability search against a sequential FIFO; "
    "distinct_nontrivial counts distinct (program, call/return order, results) hashes in which at least two operations of different "
    "threads overlap", ["empty_under_overlap"])
PLANS["C05"] = plan_queue_lin(
    "C05", r"^(vyu|nib)_", [], [], True,
    "as C04 but against a bounded FIFO of the configured capacity (failed strong try_push legal only when full; for "
    "nikolaev_bounded_queue when size + overlapping operations >= capacity; weak vyukov operations may fail spuriously)",
    ["rejected_under_overlap", "empty_under_overlap"])
PLANS["C06"] = plan_queue_lin(
    "C06", r"^(kir|kib)_", [1, 2, 3, 4, 5, 6, 7], [1, 2, 3, 4, 5, 6, 7, 8, 9, 11, 12, 13, 14, 15], True,
    "as C04 but against a k-out-of-order FIFO (pop may return any of the k oldest; 'empty' legal iff size = 0, or size < k while "
    "overlapping another operation; bounded variant: rejection legal only with >= (segments-1)*k+1 stored values); the random "
    "start index is drawn from the scheduler PRNG through hook H1", ["empty_under_overlap"])
PLANS["C07"] = plan_queue_lin(
    "C07", r"_(uptr|raw|tok)$", R8, R8 + RPLUS, True,
    "each evaluation = one generated queue program with tracked elements (unique_ptr<Tracked>, Tracked*, non-trivial movable Tok) "
    "followed by destruction of the queue at a random fill level; ownership registry: every value destroyed exactly once, never "
    "after hand-out, never by the queue for raw pointers, rejected values stay with the caller; heap oracle catches double frees",
    ["destroyed_with_elements"])

# ---------------------------------------------------------------------------------------------------- manifest metadata
NOT_YET = {}
_LEVEL_NOTE = ("Trusted base: the xrt runtime (scheduler, vector clocks, heap shadow) and the sequential models in monitors/; gcc 12 -O1 "
               "TSan-instrumented build of the header-only library from /repo's working tree; executions explored = seeded sample, not all schedules.")
META = {
    "C04": dict(design_ref="DESIGN.md 5/C04", technique="runtime monitoring: recorded histories under a controlled scheduler + WGL linearizability oracle (FIFO model), heap shadow oracle",
                level_text="Every generated program is executed for real (real threads, real reclaimers) under seeded hostile schedules with node sizes 1-16 so that "
                           "node hand-over, finalisation and reclamation happen inside 10-40 operation histories; each history plus final drain is decided by an exact "
                           "linearizability search. Held = no non-linearizable history, crash, hang or heap error among the executions explored.",
                level_note=_LEVEL_NOTE),
    "C05": dict(design_ref="DESIGN.md 5/C05", technique="runtime monitoring: recorded histories + WGL oracle (bounded FIFO, in-flight slack, spurious weak failures)",
                level_text="Bounded queues with capacities 1-8 (several wrap-arounds per history), strong and weak operations mixed, judged by the exact linearizability "
                           "search against a bounded FIFO with the weakest reading of 'full' the property allows.",
                level_note=_LEVEL_NOTE),
    "C06": dict(design_ref="DESIGN.md 5/C06", technique="runtime monitoring: recorded histories + WGL oracle (k-out-of-order FIFO), recorded random start index (hook H1)",
                level_text="k in 1..4, 1-5 segments, all reclaimers the queue compiles with; slot choice is a recorded scheduler decision; conservation and k-relaxation are "
                           "decided per history by the linearizability search against the k-FIFO model.",
                level_note=_LEVEL_NOTE),
    "C07": dict(design_ref="DESIGN.md 5/C07", technique="runtime monitoring: tracked element objects (ownership state machine) + census after queue destruction + heap shadow (double free)",
                level_text="All seven queue types with unique_ptr, raw pointer and non-trivial movable elements; queues are destroyed at random fill levels including after "
                           "racing producers overshot a full node; every element must be destroyed exactly once by its rightful owner.",
                level_note=_LEVEL_NOTE),
}
