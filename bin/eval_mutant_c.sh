#!/bin/bash
# eval_mutant_c.sh <worktree> <seed-id> <property> [more properties...]
# Phase B of the evaluation of a seeded change, parallel-safe variant: the quick checks are pointed at the scratch worktree that
# holds the change (XENIUM_REPO=<worktree>; the checks rebuild from that tree exactly as they rebuild from /repo), with a build
# directory, evidence and replays of their own under /tmp. /repo and /verif/evidence are never touched, so several changes can be
# evaluated at once. Results land in /verif/seeded/<seed-id>/ like those of eval_mutant_b.sh.
set -u
WT=$1; ID=$2; shift 2; PROPS="$@"
OUT=/verif/seeded/$ID
export XENIUM_REPO=$WT VERIF_BUILD=/tmp/vb/$ID VERIF_OUT=/tmp/vo/$ID VERIF_JOBS=${VERIF_JOBS:-5}
mkdir -p $VERIF_BUILD $VERIF_OUT
(cd $WT && git diff --quiet -- xenium) && { echo "worktree has no change under xenium/"; exit 2; }
: > $OUT/check_results.txt
for P in $PROPS; do
  (cd /verif && timeout 3000 bin/vcheck $P --tier quick > $OUT/check_$P.log 2>&1; echo "$P exit=$?" | tee -a $OUT/check_results.txt; grep -m2 "VIOLATION\|HARNESS" $OUT/check_$P.log | cut -c1-200; grep -m1 '^  key=' $OUT/check_$P.log)
done
rm -rf $VERIF_BUILD $VERIF_OUT
