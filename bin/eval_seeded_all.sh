#!/bin/bash
# Re-evaluates every seeded change under /verif/seeded against the current checks: applies patch.diff to /repo, runs the quick
# checks listed for it, restores /repo. Writes seeded/<id>/final_results.txt and prints one line per (change, check).
# usage: bin/eval_seeded_all.sh [id-prefix ...]
cd /verif
declare -A PROPS=(
 [c01-lfrc-local-freelist-store]="C01 C03"
 [c02-hp-adopted-uncounted]="C02 C01"
 [c03-hp-fence-acqrel]="C03 C01"
 [c04-nikolaev-catchup-hoisted-flag]="C04 C07"
 [c05-nikolaev-scq-skip-cas]="C05 C04"
 [c06-kirsch-bounded-valid-region]="C06 C07"
 [c07-nikolaev-finalized-push]="C07 C04"
 [c08-hashmap-moved-key-retry]="C08 C09"
 [c09-hashmap-iter-stale-next]="C09 C08"
 [c10-vyukov-extension-erase-no-version]="C10 C11"
 [c11-vyukov-erase-it-unlock]="C11 C10"
 [c12-deque-pop-bottom-release]="C12 C03"
 [c13-leftright-indicator-release]="C13 C03"
 [c14-seqlock-slot-mask]="C14"
 [c15-he-acquire-if-equal-shared-era]="C15 C01 C18"
 [c16-vyukov-tryget-wait-marker]="C16 C10"
 [c17-abandon-retired-stale-tail]="C17 C02 C01"
 [c18-he-last-era-on-throw]="C18 C15"
 [r2-c01-geb-orphan-slot]="C01 C02"
 [r3-c05-vyukov-bounded-empty-check]="C05"
 [r3-c07-ramalhete-rollback-wrong-idx]="C07 C04"
 [r3-c08-set-erase-single-find]="C08"
 [r3-c14-seqlock-hoisted-wait]="C14"
 [r3-c16-ramalhete-push-no-help]="C16"
 [r3-c18-hp-acquire-marked-null-leak]="C18"
 [r2-c02-stampit-global-chunks]="C02 C17"
 [r2-c04-ramalhete-idx-mask]="C04 C07"
 [r2-c06-kirsch-kfifo]="C06 C07"
 [r2-c12-grow-start-offset]="C12"
 [r2-c13-leftright-read-decltype-auto]="C13"
 [r4-c01-he-acquire-if-equal-shared-slot]="C01 C15 C18"
 [r4-c02-orphan-list-add-stale-next]="C02 C17"
 [r4-c03-he-dynamic-block-relaxed]="C03 C01"
 [r4-c04-nikolaev-pop-next-hoisted]="C04"
 [r4-c08-hashmap-find-start-guard-alias]="C08 C09"
 [r4-c09-hashmap-erase-it-refind-no-advance]="C09 C08"
 [r4-c10-vyukov-grow-skip-search]="C10 C11"
 [r4-c11-vyukov-erase-it-last-ext-no-publish]="C11 C10"
 [r4-c15-geb-acquire-if-equal-null-leak]="C15 C02 C01"
 [r4-c16-seqlock-load-retry-waits]="C16 C14"
 [r4-c17-geb-adopt-skip-epoch-idx]="C17 C01"
 [r4-c18-hp-dynamic-reinit-links]="C18 C17"
 [r5-c02-lfrc-local-pop-store-refcount]="C02 C01"
 [r5-c05-scq-threshold-blind-store]="C05"
 [r5-c07-kirsch-bounded-early-release]="C07 C06"
 [r5-c09-set-iter-inc-single-attempt]="C09"
 [r5-c12-grow-clears-old-slot]="C12"
 [r5-c14-seqlock-update-not-atomic]="C14"
 [r5-c17-hp-abandon-active-count]="C17 C18"
 [r5-c06-kirsch-bounded-behind-head]="C06"
 [r5-c13-leftright-wait-hoisted]="C13"
 [r6-c16-ms-pop-no-help]="C16 C04"
 [r6-c01-qsbr-exit-deletes-oldest-list]="C01 C17"
 [r6-c07-vyukov-bounded-late-dtor]="C07 C05"
 [r6-c13-leftright-first-wait-removed]="C13"
 [r6-c03-vyukov-tryget-state-relaxed]="C03 C10"
 [r6-c10-vyukov-extract-ext-prev-lost]="C10 C11"
)
if ! git -C /repo diff --quiet -- xenium; then echo "/repo has uncommitted changes under xenium/: refusing"; exit 2; fi
for d in seeded/*/; do
  id=$(basename $d)
  if [ $# -gt 0 ]; then m=0; for p in "$@"; do [[ $id == $p* ]] && m=1; done; [ $m = 1 ] || continue; fi
  props=${PROPS[$id]:-}
  [ -n "$props" ] || continue
  git -C /repo apply /verif/$d/patch.diff || { echo "$id: patch does not apply"; continue; }
  : > $d/final_results.txt
  for P in $props; do
    timeout 3000 bin/vcheck $P --tier quick > $d/final_check_$P.log 2>&1; rc=$?
    nv=$(grep -c '^VIOLATION' $d/final_check_$P.log)
    echo "$id $P exit=$rc violations_reported=$nv $(grep -m1 '^  key=' $d/final_check_$P.log)" | tee -a $d/final_results.txt
  done
  git -C /repo checkout -- .
done
git -C /repo status --short | grep -v _build
