#!/usr/bin/env python3
"""Regenerates MANIFEST.json from bin/vplan.py (registered plans) and the notes below."""
import json, os, sys
VERIF = os.path.dirname(os.path.dirname(os.path.abspath(__file__)))
sys.path.insert(0, os.path.join(VERIF, "bin"))
import vplan

props = [json.loads(l) for l in open(os.path.join(VERIF, "properties.jsonl"))]
NA_REASON = {}
checks = []
for p in props:
    pid = p["id"]
    if pid not in vplan.PLANS:
        continue
    meta = vplan.META[pid]
    checks.append({
        "property_id": pid,
        "quick_cmd": "bin/vcheck %s --tier quick" % pid,
        "thorough_cmd": "bin/vcheck %s --tier thorough" % pid,
        "evidence_file": "evidence/%s.json" % pid,
        "replay_cmd_template": "bin/vcheck --replay {path}",
        "engine": "xrt" + ("+native-sanitizers" if pid in vplan.NATIVE or pid == "C15" else ""),
        "level_claimed": {"category": "exploration", "text": meta["level_text"], "design_ref": meta["design_ref"]},
        "level_note": meta["level_note"],
        "technique": meta["technique"],
    })
na = [{"property_id": p["id"], "reason": vplan.NOT_YET.get(p["id"], "check under construction in this session; not yet registered")}
      for p in props if p["id"] not in vplan.PLANS]
m = {
    "version": 1,
    "setup_cmd": "make -s -C xrt -j16 libxrt.a && bin/vcheck --selftest",
    "hooks": {
        "guard": "XENIUM_VERIF",
        "enable": "every scenario TU is compiled with -DXENIUM_VERIF against /repo's working tree (header-only library); atomics, fences and plain accesses are observed through the compiler's -fsanitize=thread instrumentation, so the only source hook is the replaceable utils::random()",
        "baseline_off_cmd": "cmake --build /repo/_build --target gtest -j16 && ctest --test-dir /repo/_build -j8 --timeout 900",
        "source_commits": ["db30f37"],
        "add_only": True,
    },
    "engines": [
        {"name": "xrt", "path": "xrt/", "serves_properties": sorted(vplan.PLANS.keys()),
         "kind_free_text": "own sanitizer runtime implementing the TSan compiler ABI: seeded baton scheduler over real pthreads (random walk, PCT, burst, plain-access preemption, solo/freeze), vector-clock happens-before race detector, view-based stale-read / spurious-CAS injection, never-reusing heap with freed/red-zone shadow"},
        {"name": "native-sanitizers", "path": "xrt/native.cpp", "serves_properties": sorted(set(vplan.NATIVE.keys()) | {"C15"}),
         "kind_free_text": "the same scenario sources built with stock g++ sanitizers: ASan+UBSan (-fno-sanitize-recover=all) and ThreadSanitizer on the library's TSan build variant; real parallel threads, histories stamped from one global counter, monitors under a mutex that TSan ignores; a sanitizer report kills the job and is reported as asan-report / tsan-report; plus the native marked_ptr bit-model program (C15)"},
        {"name": "monitors", "path": "monitors/", "serves_properties": sorted(vplan.PLANS.keys()),
         "kind_free_text": "WGL linearizability checker with sequential models, element-ownership registry, lifetime registry, ledgers"},
    ],
    "checks": checks,
    "not_applicable": na,
    "notes": "See DESIGN.md (section 0 = as built). known_findings.txt lists the repaired defects (fix: commits in /repo) and the open findings; seeded/ holds the seeded changes used to validate the checks (bin/eval_seeded_all.sh).",
}
json.dump(m, open(os.path.join(VERIF, "MANIFEST.json"), "w"), indent=1)
print("MANIFEST.json: %d checks, %d not_applicable" % (len(checks), len(na)))
