#!/bin/bash
# eval_mutant_a.sh <worktree> <seed-id>        (phase A of the evaluation of a seeded change; runs only inside the scratch worktree)
# Confirms a sub-agent's seeded change: the demo fails with the change and passes without it, the library's own test-suite (TSan build,
# as the baseline) passes with the change. Stores patch.diff, demo, notes and logs under /verif/seeded/<seed-id>/.
set -u
WT=$1; ID=$2
OUT=/verif/seeded/$ID
mkdir -p $OUT
cd $WT || exit 2
git diff -- xenium > $OUT/patch.diff
[ -s $OUT/patch.diff ] || { echo "empty patch"; exit 2; }
cp demo.cpp demo_build.txt notes.txt $OUT/ 2>/dev/null
BUILD=$(grep -v '^#' demo_build.txt | grep -m1 'g++\|clang')
echo "== demo WITH the change"; (cd $WT && eval "$BUILD" >/dev/null 2>$OUT/demo_build.log && timeout 300 ./demo >$OUT/demo_with.log 2>&1; echo "exit=$?" | tee $OUT/demo_with.exit)
git apply -R $OUT/patch.diff
echo "== demo WITHOUT the change"; (cd $WT && eval "$BUILD" >/dev/null 2>>$OUT/demo_build.log && timeout 300 ./demo >$OUT/demo_without.log 2>&1; echo "exit=$?" | tee $OUT/demo_without.exit)
git apply $OUT/patch.diff
rm -f $WT/demo
echo "== library test-suite WITH the change"
GT=""; [ -f $WT/3rdParty/gtest/googletest/src/gtest-all.cc ] || GT="-DGOOGLETEST_ROOT=$(python3 -c "import os;print(os.path.relpath('/usr/src/googletest/googletest','$WT'))")"
(cd $WT && cmake -G Ninja -B _build -DCMAKE_BUILD_TYPE=RelWithDebInfo -DCMAKE_CXX_FLAGS=-Wno-error -DWITH_TSAN=ON $GT >/dev/null 2>&1 && cmake --build _build --target gtest -j${SUITE_JOBS:-8} 2>&1 | tail -1 && ./_build/gtest 2>&1 | tail -2 | tee $OUT/suite_with.log)
rm -rf $WT/_build
