#!/usr/bin/env python3
"""Writes seeded/<id>/meta.json from the evaluation logs and prints the markdown table used in DESIGN.md section 0.6.
The one-line descriptions are maintained here; results come from final_results.txt (bin/eval_seeded_all.sh), falling back to
check_results.txt (bin/eval_mutant.sh)."""
import json, os, re, sys
VERIF = os.path.dirname(os.path.dirname(os.path.abspath(__file__)))
INFO = {
 "c01-lfrc-local-freelist-store": ("C01", "lock_free_ref_count: thread-local free-list pop resets ref_count with a plain store instead of the RMW",
    "a guard acquisition racing the re-allocation of a type-stable node (3 threads, node recycled through the local free list)"),
 "c02-hp-adopted-uncounted": ("C02", "hazard_pointer::scan keeps adopted protected nodes in the retire list without counting them; ~thread_data tests the counter",
    "a thread adopts nodes of an exited thread that are still protected, then exits itself: the nodes are never handed on (leak)"),
 "c03-hp-fence-acqrel": ("C03", "hazard_pointer::set_object: seq_cst fence weakened to acq_rel",
    "store-buffering between publish/re-validate and unlink/scan: only a weak (non-SC) execution exposes it"),
 "c04-nikolaev-catchup-hoisted-flag": ("C04", "nikolaev_scq::catchup computes the finalized flag once before the CAS loop",
    ">= 3 threads on entries_per_node 1/2: first catchup CAS fails, the second wipes the flag, a straggling producer enqueues into the abandoned node"),
 "c05-nikolaev-scq-skip-cas": ("C05", "nikolaev_scq::dequeue skips the CAS on a vacant entry when tail <= head",
    "a dequeuer passing a vacant slot while an enqueuer with an old ticket is about to use it (bounded queue, small capacity)"),
 "c06-kirsch-bounded-valid-region": ("C06", "kirsch_bounded_kfifo_queue::in_valid_region: '<' became '<='",
    "a push committed into the head segment while a concurrent operation advances head over the 'empty' segment (value lost)"),
 "c07-nikolaev-finalized-push": ("C07", "nikolaev_queue node::try_push drops the move-back of the element when the node was finalized",
    "push racing the finalisation of the tail node with owning elements: the element is destroyed, a moved-from value is enqueued"),
 "c08-hashmap-moved-key-retry": ("C08", "harris_michael_hash_map get_or_emplace*: retry after a failed insert CAS searches with the moved-from key",
    "non-trivially movable key type + two threads inserting the same key via get_or_emplace / operator[]"),
 "c09-hashmap-iter-stale-next": ("C09", "harris_michael_hash_map iterator++ tests the stale local 'next' instead of info.cur for end-of-bucket",
    "> 1 bucket, the element under the iterator is erased by someone else and was the last of its bucket: traversal ends early"),
 "c10-vyukov-extension-erase-no-version": ("C10", "vyukov_hash_map::do_extract does not bump the bucket version when it removes an extension item",
    ">= 128 buckets, > 3 colliding keys, erase of an extension-resident key concurrent with try_get_value on that bucket"),
 "c11-vyukov-erase-it-unlock": ("C11", "vyukov_hash_map::erase(iterator) publishes the unlocked state while the iterator stays on the bucket",
    "erase(it) on a non-tail extension item while another thread updates the same bucket"),
 "c12-deque-pop-bottom-release": ("C12", "chase_work_stealing_deque::try_pop stores bottom with release instead of seq_cst",
    "store-buffering between owner (bottom store, top load) and thief: weak / TSO execution only"),
 "c13-leftright-indicator-release": ("C13", "left_right::update stores the lr indicator with release instead of seq_cst",
    "store-buffering between writer (indicator store, read-indicator load) and reader: TSO execution only"),
 "c14-seqlock-slot-mask": ("C14", "seqlock slot index computed with '& (slots-1)' instead of '% slots'",
    "slot counts that are not powers of two (slots<3>)"),
 "c15-he-acquire-if-equal-shared-era": ("C15", "hazard_eras acquire_if_equal updates the era of a slot that other guards share",
    "two guards sharing an era slot, the second guard's object retired, successful acquire_if_equal on the first, a scan"),
 "c16-vyukov-tryget-wait-marker": ("C16", "vyukov_hash_map::try_get_value retries while the delete marker is set instead of skipping the slot",
    "another thread stopped inside erase between setting and clearing the delete marker: the reader spins for ever"),
 "c17-abandon-retired-stale-tail": ("C17", "thread_block_list::abandon_retired_nodes links the tail outside the CAS retry loop",
    "two threads exiting at the same time with non-empty retire lists (CAS fails once): nodes cut out / cyclic list / double reclaim"),
 "r2-c01-geb-orphan-slot": ("C01", "generic_epoch_based::update_global_epoch adopts orphans[(curr_epoch + 2) % 3]: orphaned nodes get one grace period too few",
    "a thread that lags one epoch behind retires a node and exits / abandons while a thread that entered in the newer epoch still guards it"),
 "r2-c02-stampit-global-chunks": ("C02", "stamp_it::process_global_nodes pushes only the first remaining chunk back to the global list",
    ">= 3 threads: the oldest leaver holds its own retired nodes plus a chunk of an exited thread while a third thread is still inside: the second chunk is leaked"),
 "r2-c04-ramalhete-idx-mask": ("C04", "ramalhete_queue: ticket -> entry mapping with '& (entries_per_node - 1)' instead of '% entries_per_node'",
    "entries_per_node that is not a power of two (3, 5, 7, 11 ...): values returned twice"),
 "r2-c06-kirsch-kfifo": ("C06", "kirsch_kfifo_queue rounds k up to the next power of two and indexes slots with a mask: a k'-FIFO with k' > k",
    "k that is not a power of two (3, 5, 6, 7 ...): a pop returns a value although k or more older values are stored"),
 "r2-c12-grow-start-offset": ("C12", "growing_circular_array::grow skips the re-indexing unless top < capacity",
    "growth at top >= 2C with top mod 2C in [1, C-1] (the suite grows at top == 0 only)"),
 "r2-c13-leftright-read-decltype-auto": ("C13", "left_right::read returns decltype(auto): a functor returning a reference hands out a reference into the instance after the read guard is gone",
    "a read functor that returns (part of) the instance by reference, copied by the caller while the writer updates that instance"),
 "r3-c05-vyukov-bounded-empty-check": ("C05", "vyukov_bounded_queue strong pop: emptiness re-check compares the cells the positions map to instead of the positions",
    "exactly capacity push positions reserved and the oldest push still pending: strong pop reports 'empty' although completed pushes are in the queue"),
 "r3-c07-ramalhete-rollback-wrong-idx": ("C07", "ramalhete_queue::push rollback resets pop_idx instead of push_idx of the discarded node",
    "owning elements (unique_ptr) and two producers racing to append a node: the pre-stored element is destroyed and then enqueued again"),
 "r3-c08-set-erase-single-find": ("C08", "harris_michael_list_based_set::erase(key) retries the mark CAS without re-running find and treats 'already marked' as success",
    "two threads erasing the same present key: both return true"),
 "r3-c14-seqlock-hoisted-wait": ("C14", "seqlock::load (single slot): the wait for a pending write is hoisted out of the retry loop",
    "slots == 1, a retry that starts while the writer holds the lock: torn value accepted"),
 "r3-c16-ramalhete-push-no-help": ("C16", "ramalhete_queue::push no longer helps to advance _tail when the tail node is full",
    "a producer stopped between linking the new node and publishing it as _tail: every other push spins"),
 "r3-c18-hp-acquire-marked-null-leak": ("C18", "hazard_pointer guard_ptr::acquire allocates a slot whenever the guard's pointer is null (instead of: owns no slot)",
    "a guard that acquired a marked null pointer and is re-used: its slot leaks; K leaks exhaust a static pool"),
 "c18-he-last-era-on-throw": ("C18", "hazard_eras alloc_hazard_era records the new era before the allocation that may throw",
    "all K slots in use, one failed allocation, then another guard request in the same era shares a stale slot (no exception, unprotected)"),
 "r4-c01-he-acquire-if-equal-shared-slot": ("C01", "hazard_eras acquire_if_equal republishes the new era in the guard's slot without checking that no other guard shares the slot",
    "two guards of one thread sharing an era slot (copy, or acquired in the same era), the first guard's object retired (era advances), successful acquire_if_equal on the second, a scan"),
 "r4-c02-orphan-list-add-stale-next": ("C02", "orphan_list::add 'fast path': after a failed strong CAS the first weak CAS runs with the new head while last->next still points to the old one",
    "two threads abandoning retire lists into the same epoch slot at the same time (simultaneous thread exits / abandon policies): the other thread's list is cut out and leaked"),
 "r4-c03-he-dynamic-block-relaxed": ("C03", "hazard_eras dynamic strategy: next_block() loads he_block relaxed instead of acquire",
    "a thread whose slot array grows (more live guards than K) while another thread scans it: the scanner reads the new block's plain fields without happens-before"),
 "r4-c04-nikolaev-pop-next-hoisted": ("C04", "nikolaev_queue::do_pop loads node->_next once before the dequeue and reuses it for the emptiness check",
    "a pop stalled between reading _next == null and its dequeue while others push across the node boundary and drain the node: EMPTY although never empty"),
 "r4-c08-hashmap-find-start-guard-alias": ("C08", "harris_michael_hash_map::find: the guard of the search's start node became a reference to info.save (which is handed along)",
    "HP / HE / LFRC: a search restarted from a predecessor mid-list advances two nodes, retries, and continues from the predecessor's reclaimed and reused memory: duplicate keys / unsorted bucket"),
 "r4-c09-hashmap-erase-it-refind-no-advance": ("C09", "harris_michael_hash_map::erase(iterator): after the re-find path the iterator is not moved on to the next non-empty bucket",
    "unlink CAS on the saved predecessor fails, the erased element was the last of its bucket, a later bucket is non-empty: the returned iterator equals end() and the traversal stops early"),
 "r4-c10-vyukov-grow-skip-search": ("C10", "vyukov_hash_map::do_get_or_emplace skips the 'key already present' search on the retry after a grow",
    "two threads inserting the same key, one of them triggering grow(): the other inserts between unlock in grow() and the re-lock: duplicate key"),
 "r4-c11-vyukov-erase-it-last-ext-no-publish": ("C11", "vyukov_hash_map::erase(iterator) publishes the bumped version only if the iterator stays in the bucket",
    ">= 128 buckets, erase(iterator) of the last extension item while a try_get_value stands on that item and the eraser waits for the next bucket: reader follows the freed item"),
 "r4-c15-geb-acquire-if-equal-null-leak": ("C15", "generic_epoch_based acquire_if_equal: mismatch path calls reset(), which does not leave the critical region when the second load returned null",
    "the source changes from expected (non-null) to nullptr between the two loads: the guard is empty but the region entry leaks, the epoch can never advance again"),
 "r4-c16-seqlock-load-retry-waits": ("C16", "seqlock::load with slots > 1 waits for a pending write after a failed validation",
    "a reader inside an invalidated load while the current writer is stopped between acquire_lock and release_lock"),
 "r4-c17-geb-adopt-skip-epoch-idx": ("C17", "generic_epoch_based::acquire_control_block returns early when the adopted block's local_epoch equals the global epoch, skipping local_epoch_idx",
    "a thread adopting an up-to-date block of an exited thread while epoch % 3 != 0 retires a node at once: it is filed under epoch index 0 and reclaimed too early while another thread guards it"),
 "r4-c18-hp-dynamic-reinit-links": ("C18", "hazard_pointer dynamic strategy: initialize_next_block() of a grown block links to the older block without re-linking it",
    "a control block that grew at least twice is reused by a new thread which again needs the older blocks: stale free-list links hand out a slot that is in use"),
 "r5-c02-lfrc-local-pop-store-refcount": ("C02", "lock_free_ref_count thread-local free list pop: ref_count().store(RefCountInc) instead of the fetch_add (same idea as c01-lfrc-local-freelist-store, written independently)",
    "thread_local_free_list_size > 0; another thread still holds a transient reference on the node from an earlier look at the global free-list head"),
 "r5-c05-scq-threshold-blind-store": ("C05", "nikolaev_scq::dequeue 'queue is empty' exit stores -1 into the threshold instead of decrementing it",
    "a try_pop on an empty queue reaching its verdict while a complete try_push falls in between: the push's threshold reset is overwritten, later pops report EMPTY (mirror image: false FULL)"),
 "r5-c07-kirsch-bounded-early-release": ("C07", "kirsch_bounded_kfifo_queue::try_push releases the unique_ptr right after the slot CAS instead of after committed()",
    "unique_ptr elements; the slot CAS succeeds, committed() returns false (tail moved on), the retry finds the queue full: push rejected, object leaked"),
 "r5-c09-set-iter-inc-single-attempt": ("C09", "harris_michael_list_based_set iterator++ makes one acquire_if_equal attempt and then falls back to find(cur->key) (re-introduces the repaired defect 8478286)",
    "the successor of the current element changes between the load of cur->next and the re-validation: the same element is yielded twice"),
 "r5-c12-grow-clears-old-slot": ("C12", "growing_circular_array::grow resets the old slot to nullptr after copying an entry to its new position",
    "a thief that located index top with the old capacity during grow() reads nullptr, the capacity re-check still passes: try_steal returns null, the item is lost"),
 "r5-c14-seqlock-update-not-atomic": ("C14", "seqlock::update became load(); func(); store(): the read-modify-write is no longer done under the writer lock",
    "two concurrent writers, one of them in update() between its load and its store while the other completes a write: lost update"),
 "r5-c17-hp-abandon-active-count": ("C17", "hazard_pointer control block abandon() subtracts K instead of the block's number of hazard pointers from number_of_active_hps",
    "dynamic strategy, a thread whose block grew exits: total - K phantom active hazard pointers per generation; threshold and scan size grow with the number of threads ever created"),
 "r5-c06-kirsch-bounded-behind-head": ("C06", "kirsch_bounded_kfifo_queue::not_in_valid_region (non-wrapping case) only tests 'beyond tail', not 'behind head'",
    "k >= 2, an almost empty queue: the producer's slot CAS lands in a segment that head has just left; the push is reported successful, the value sits behind head"),
 "r5-c13-leftright-wait-hoisted": ("C13", "left_right::update waits for the readers of the next version index before the first application instead of after the version toggle",
    "a reader that loaded the version index and is stalled across a complete toggle wakes up during the next back-to-back update and reads the instance being modified"),
 "r6-c16-ms-pop-no-help": ("C16", "michael_scott_queue::pop_node no longer helps to swing _tail when head == tail but head->next != nullptr; it backs off and retries",
    "a pusher stopped between linking its node onto an empty queue and its own tail swing: every pop spins"),
 "r6-c01-qsbr-exit-deletes-oldest-list": ("C01", "quiescent_state_based::~thread_data deletes retire_lists[(local_epoch + 1) % 3] at thread exit before the orphan hand-over",
    "a reader one epoch behind still guards a node that the exiting thread retired two epochs ago: the node is destroyed at the thread exit"),
 "r6-c07-vyukov-bounded-late-dtor": ("C07", "vyukov_bounded_queue::do_try_pop runs the destructor of the moved-from cell after the release store that hands the cell back",
    "non-trivially destructible elements, a producer waiting for exactly that cell constructs the next element before the late destructor runs: it destroys an element the queue owns"),
 "r6-c13-leftright-first-wait-removed": ("C13", "left_right::toggle_version_and_wait no longer drains the read indicator it is about to make current",
    "a reader whose version load / arrive straddles one update, and a second back-to-back update applying the functor to the instance that reader still reads"),
 "r6-c03-vyukov-tryget-state-relaxed": ("C03", "vyukov_hash_map::try_get_value loads the bucket state relaxed instead of acquire at the start of the lookup",
    "node based storage (non-trivial key or value): a reader finds an entry another thread has just inserted and dereferences its node without happens-before to its construction"),
 "r6-c10-vyukov-extract-ext-prev-lost": ("C10", "vyukov_hash_map::do_extract: the extension loop no longer advances extension_prev, a removal in the extension list writes bucket.head = found->next",
    ">= 128 buckets, >= 5 keys in one bucket, erase / extract of an extension key that is not the most recently inserted one: the items in front of it vanish"),
 "r7-c01-stampit-cached-retire-stamp": ("C01", "stamp_it::thread_data::add_retired_node caches the head stamp and re-uses it for retirements that follow without an intervening enter_region",
    "a thread holding two guards reclaims both back to back; another thread enters its region and acquires the second node between the two retirements; the retirer leaves as the oldest block"),
 "r7-c02-qsbr-orphans-taken-before-cas": ("C02", "quiescent_state_based::try_update_epoch empties the global orphan list before the epoch CAS and only keeps the chain when the CAS succeeds",
    "a thread exited with retired nodes, two other threads try to advance the same epoch: the one that took the orphans loses the CAS, the orphan (and every node in it) is leaked"),
 "r7-c04-nikolaev-pop-next-after-retry": ("C04", "nikolaev_queue::do_pop checks node->_next only after the second dequeue attempt (the 'successor exists' observation no longer precedes the last failing dequeue)",
    "a consumer finds the head node empty and is delayed before the _next load while producers fill, finalize and link a successor: the node is unlinked with completed pushes inside (values lost)"),
 "r7-c05-vyukov-bounded-pop-strong-default-weak": ("C05", "vyukov_bounded_queue::try_pop_strong instantiates do_try_pop<default_to_weak> instead of do_try_pop<false>",
    "policy::default_to_weak<true> and an explicit strong pop while the oldest push is reserved but unpublished and a later push has completed: the strong pop reports 'empty'"),
 "r7-c08-hashmap-lazy-emplace-unguarded-successor": ("C08", "harris_michael_hash_map::do_get_or_emplace_lazy releases the successor's guard before the user factory runs and CASes against the raw pointer (re-introduces the repaired defect 1d5f91b in another shape)",
    "the successor is erased and reclaimed while the factory runs, its address is re-used by a node linked at the same position: duplicate key"),
 "r7-c09-set-erase-it-successor-unguarded": ("C09", "harris_michael_list_based_set::erase(iterator) unlinks first and creates the guard for the successor afterwards, without validation",
    "another thread erases and reclaims exactly the successor between the unlink and the guard creation (hazard_pointer / hazard_eras): the returned iterator refers to freed memory"),
 "r7-c10-vyukov-grow-ext-old-head": ("C10", "vyukov_hash_map::do_grow pushes a re-created extension item in front of old_bucket.head instead of new_bucket.head",
    ">= 128 buckets, >= 4 keys that still collide after doubling while the extension pool is exhausted: keys twice in the new table / reachable only through the retired block"),
 "r7-c11-vyukov-iterator-move-assign-reset": ("C11", "vyukov_hash_map::iterator move assignment calls other.reset() instead of clearing the moved-from fields: the bucket lock just taken over is released",
    "an iterator obtained through move assignment (it = map.find(k)) and another thread updating the same bucket while it is alive; the iterator later writes its stale state back (lost element)"),
 "r7-c12-deque-steal-retry-stale-bottom": ("C12", "chase_work_stealing_deque::try_steal retries a lost top CAS (weak CAS loop) against the bottom value it loaded before the first attempt",
    "a thief delayed between its bottom load and its CAS while top advances and the owner pops two items back to back: item returned twice, top passes bottom"),
 "r7-c15-qsbr-copy-assign-marked-null": ("C15", "quiescent_state_based guard_ptr copy assignment enters the region only if get() != nullptr while reset / destructor leave it whenever the marked pointer is non-zero",
    "a guard holding a marked null pointer as source of a copy assignment: region counter one too low, another guard of the thread loses its protection (or the counter underflows)"),
 "r7-c17-he-dynamic-no-relink": ("C17", "hazard_eras dynamic strategy: initialize_next_block() of the control block returns nullptr (like the static one), grown blocks are never re-linked into the free list",
    "threads that need more than K eras, exit, and whose block is adopted by a thread that again needs more than K: one more block of max(K, total/2) eras per generation"),
 "r7-c18-hp-copy-assign-ptr-before-alloc": ("C18", "hazard_pointer guard_ptr copy assignment stores the pointer before allocating the slot",
    "static strategy with all K slots in use: the assignment throws and leaves the target claiming the object without a slot; a later acquire of the same pointer returns early, unprotected"),
}
rows = []
for sid in sorted(INFO):
    d = os.path.join(VERIF, "seeded", sid)
    if not os.path.isdir(d):
        continue
    prop, summary, needs = INFO[sid]
    results = {}
    src = "final_results.txt" if os.path.exists(os.path.join(d, "final_results.txt")) else "check_results.txt"
    for line in open(os.path.join(d, src)) if os.path.exists(os.path.join(d, src)) else []:
        m = re.search(r"(C\d\d) exit=(\d+)", line)
        if m:
            results[m.group(1)] = "caught" if m.group(2) == "1" else ("not caught" if m.group(2) == "0" else "harness exit %s" % m.group(2))
    first = {}
    fv = os.path.join(d, "check_results_first_version.txt")
    if os.path.exists(fv):
        # the change was first evaluated against an earlier version of the checks, which were strengthened afterwards; keep both
        for line in open(fv):
            m = re.search(r"(C\d\d) exit=(\d+)", line)
            if m:
                first[m.group(1)] = "caught" if m.group(2) == "1" else ("not caught" if m.group(2) == "0" else "harness exit %s" % m.group(2))
        for k, v in first.items():
            results.setdefault(k, v)
    def rd(name):
        p = os.path.join(d, name)
        return open(p).read().strip() if os.path.exists(p) else "?"
    meta = dict(property=prop, summary=summary, needs=needs, quick_checks=results, results_from=src,
                **({"quick_checks_first_version": first} if first else {}),
                demo_with_change=rd("demo_with.exit"), demo_without_change=rd("demo_without.exit"),
                library_suite_with_change=rd("suite_with.log").splitlines()[-1] if rd("suite_with.log") != "?" else "?",
                what_was_run="bin/eval_mutant.sh or bin/eval_mutant_a.sh (demo with/without the change, full library test-suite with the change, in the scratch worktree) "
                             "and bin/eval_mutant_b.sh / bin/eval_seeded_all.sh (patch applied to /repo, quick checks, /repo restored) or, for round 7, bin/eval_mutant_c.sh (quick checks pointed at the scratch worktree holding the change, XENIUM_REPO)")
    extra = os.path.join(d, "meta_extra.json")
    if os.path.exists(extra):
        meta.update(json.load(open(extra)))
    json.dump(meta, open(os.path.join(d, "meta.json"), "w"), indent=1)
    caught = [p for p, r in results.items() if r == "caught"]
    missed = [p for p, r in results.items() if r != "caught"]
    rows.append("| %s | %s | %s | %s | %s |" % (sid, prop, summary, ", ".join(caught) or "-", ", ".join(missed) or "-"))
print("| seeded change | aimed at | change | caught by (quick) | run but silent |")
print("|---|---|---|---|---|")
print("\n".join(rows))
