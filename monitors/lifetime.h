// Lifetime registry (C01 / C02 / C15 / C17 / C18): node records, guard table, deleter events, cell value history.
// All entry points run inside xrt::Quiet: no scheduling point, atomic w.r.t. the library call they follow/precede.
#pragma once
#include "../scenarios/harness.h"

namespace mon {

enum NState : uint8_t { N_ALIVE = 0, N_RETIRED = 1, N_DESTROYED = 2 };

struct NRec {
  int64_t id = 0;
  const void* addr = nullptr;
  uint8_t state = N_ALIVE;
  uint8_t retire_count = 0, dtor_count = 0, deleter_calls = 0;
  int64_t expected_token = -1, got_token = -1;
  uint8_t created_by = 0, retired_by = 0, destroyed_by = 0;
  bool plain_delete_expected = false; // never published: the harness deletes it itself
  bool dummy = false;                 // flush helper node, excluded from the census
  bool retirer_exited = false;
};

constexpr int LT_MAXT = 8;
constexpr int LT_MAXG = 6;

struct CellWrite { // one successful modification of a shared cell (for the snapshot oracle)
  uint64_t old_value, new_value; // raw marked pointer bits
  uint64_t call, ret;
};

struct SnapshotObs { // evaluated after the episode, when all cell writes are known
  uint8_t kind; // 0: acquire/acquire_if_equal(true) returned `value`; 1: acquire_if_equal(expected = value) returned false
  int cell;
  uint64_t value, call, ret;
  int64_t id;
};

struct LifetimeRegistry {
  std::vector<SnapshotObs> snapshots;
  std::vector<NRec> recs;
  std::unordered_map<const void*, int> by_addr; // current incarnation at an address
  std::unordered_set<const void*> carried;      // retired in an earlier execution of this process, not yet destroyed
  int guard[LT_MAXT][LT_MAXG];
  bool guard_by_copy[LT_MAXT][LT_MAXG] = {}; // the protection of this slot was established by copying another guard_ptr
  bool thread_exited[LT_MAXT];
  std::vector<std::vector<CellWrite>> cell_hist;
  std::string err_prop, err_kind, err_msg;
  bool custom_deleter = false;
  // observation counters (non-vacuity)
  uint64_t destroyed_while_other_guarded = 0; // deleter events while some OTHER node was guarded by another thread
  uint64_t destroyed_in_history = 0;
  uint64_t destroyed_by_other_after_exit = 0; // retired by T, destroyed by U != T after T exited
  uint64_t guards_registered = 0;

  void reset(int ncells, bool custom) {
    for (auto& r : recs)
      if (r.dtor_count == 0)
        carried.insert(r.addr);
    recs.clear();
    by_addr.clear();
    for (auto& row : guard)
      for (auto& g : row)
        g = -1;
    for (auto& e : thread_exited)
      e = false;
    cell_hist.assign((size_t)ncells, {});
    snapshots.clear();
    err_prop.clear();
    err_kind.clear();
    err_msg.clear();
    custom_deleter = custom;
    destroyed_while_other_guarded = destroyed_in_history = destroyed_by_other_after_exit = guards_registered = 0;
  }
  void err(const char* prop, const char* kind, const std::string& msg) {
    xrt::Quiet q; // monitor state: never touched with scheduling points enabled
    if (err_kind.empty()) {
      err_prop = prop;
      err_kind = kind;
      err_msg = msg;
    }
  }
  int find(const void* addr) {
    auto it = by_addr.find(addr);
    return it == by_addr.end() ? -1 : it->second;
  }

  void created(const void* addr, int64_t id, bool dummy) {
    xrt::Quiet q;
    int old = find(addr);
    if (old >= 0 && recs[(size_t)old].state != N_DESTROYED)
      err("C01", "memory-reused-while-alive",
          hz::fmt("node %" PRId64 " constructed at %p while node %" PRId64 " still lives there", id, addr, recs[(size_t)old].id));
    NRec r;
    r.id = id;
    r.addr = addr;
    r.created_by = (uint8_t)xrt::tid();
    r.dummy = dummy;
    recs.push_back(r);
    by_addr[addr] = (int)recs.size() - 1;
  }
  void expect_plain_delete(const void* addr) {
    xrt::Quiet q;
    int i = find(addr);
    if (i >= 0)
      recs[(size_t)i].plain_delete_expected = true;
  }
  void retire(const void* addr, int64_t token) {
    xrt::Quiet q;
    int i = find(addr);
    if (i < 0)
      return;
    NRec& r = recs[(size_t)i];
    r.retire_count++;
    if (r.retire_count > 1)
      err("", "harness-protocol", hz::fmt("node %" PRId64 " retired twice by the harness", r.id));
    if (r.state == N_DESTROYED)
      err("C01", "destroyed-before-retire", hz::fmt("node %" PRId64 " was destroyed before it was retired", r.id));
    else
      r.state = N_RETIRED;
    r.expected_token = token;
    r.retired_by = (uint8_t)xrt::tid();
  }
  void deleter_called(const void* addr, int64_t token) {
    xrt::Quiet q;
    int i = find(addr);
    if (i < 0 && carried.count(addr))
      return; // retired in an earlier execution (e.g. the last flush dummies): outside this history
    if (i < 0) {
      err("C02", "deleter-on-unknown", hz::fmt("deleter (token %" PRId64 ") called on unknown object %p", token, addr));
      return;
    }
    NRec& r = recs[(size_t)i];
    r.deleter_calls++;
    r.got_token = token;
    if (r.state != N_RETIRED)
      err("C02", "deleter-on-unretired", hz::fmt("deleter called on node %" PRId64 " in state %d", r.id, r.state));
    else if (token != r.expected_token)
      err("C02", "wrong-deleter",
          hz::fmt("node %" PRId64 " retired with deleter token %" PRId64 " but destroyed by deleter token %" PRId64, r.id,
                  r.expected_token, token));
    if (r.deleter_calls > 1)
      err("C02", "deleter-twice", hz::fmt("deleter called %d times on node %" PRId64, r.deleter_calls, r.id));
  }
  void destroyed(const void* addr) {
    xrt::Quiet q;
    int i = find(addr);
    if (i < 0) {
      carried.erase(addr);
      return;
    }
    NRec& r = recs[(size_t)i];
    r.dtor_count++;
    int me = xrt::tid();
    r.destroyed_by = (uint8_t)me;
    if (r.dtor_count > 1) {
      err("C02", "destroyed-twice", hz::fmt("node %" PRId64 " destroyed %d times", r.id, r.dtor_count));
      return;
    }
    if (r.state == N_ALIVE && !r.plain_delete_expected)
      err("C02", "destroyed-unretired", hz::fmt("node %" PRId64 " destroyed although it was never retired", r.id));
    if (custom_deleter && r.state == N_RETIRED && r.deleter_calls != 1)
      err("C02", "destroyed-without-deleter", hz::fmt("node %" PRId64 " destroyed without its deleter being invoked", r.id));
    bool other_guarded = false;
    int n_acq = 0, n_copy = 0, wt = -1, wg = -1;
    for (int t = 0; t < LT_MAXT; ++t)
      for (int g = 0; g < LT_MAXG; ++g) {
        int gi = guard[t][g];
        if (gi == i) {
          if (guard_by_copy[t][g])
            ++n_copy;
          else
            ++n_acq;
          if (wt < 0 || !guard_by_copy[t][g]) {
            wt = t;
            wg = g;
          }
        } else if (gi >= 0 && t != me)
          other_guarded = true;
      }
    if (n_acq + n_copy > 0)
      // "-by-copy": every guard that still protects the node got its protection by copying another guard_ptr (whose own protection
      // has ended since) - the signature of a hand-over that the reclaimer missed; otherwise a guard that acquired the node itself
      err("C01", n_acq ? "destroyed-while-guarded" : "destroyed-while-guarded-by-copy",
          hz::fmt("node %" PRId64 " (retired by T%d) destroyed by T%d while guard slot %d of T%d protects it (%d acquiring, %d copied guard(s))",
                  r.id, r.retired_by, me, wg, wt, n_acq, n_copy));
    r.state = N_DESTROYED;
    if (!r.dummy && r.retire_count) {
      destroyed_in_history++;
      if (other_guarded)
        destroyed_while_other_guarded++;
      if (r.retired_by != me && r.retired_by < LT_MAXT && thread_exited[r.retired_by])
        destroyed_by_other_after_exit++;
    }
  }
  // the guard slot is about to be modified: protection may be dropped during the call
  void guard_clear(int slot) {
    xrt::Quiet q;
    guard[xrt::tid()][slot] = -1;
    guard_by_copy[xrt::tid()][slot] = false;
  }
  bool guard_is_copy(int slot) {
    xrt::Quiet q;
    return guard_by_copy[xrt::tid()][slot];
  }
  // the guard operation returned and the slot now refers to addr (or nullptr)
  void guard_set(int slot, const void* addr, bool by_copy = false) {
    xrt::Quiet q;
    int t = xrt::tid();
    guard_by_copy[t][slot] = by_copy && addr != nullptr;
    if (!addr) {
      guard[t][slot] = -1;
      return;
    }
    int i = find(addr);
    if (i < 0) {
      err("C01", "guard-on-unknown", hz::fmt("guard slot %d of T%d refers to unknown object %p", slot, t, addr));
      return;
    }
    if (recs[(size_t)i].state == N_DESTROYED)
      err("C01", "guard-on-destroyed",
          hz::fmt("guard slot %d of T%d was handed node %" PRId64 " which is already destroyed", slot, t, recs[(size_t)i].id));
    guard[t][slot] = i;
    guards_registered++;
  }
  void thread_exit() {
    xrt::Quiet q;
    int t = xrt::tid();
    thread_exited[t] = true;
    for (int g = 0; g < LT_MAXG; ++g) {
      guard[t][g] = -1;
      guard_by_copy[t][g] = false;
    }
  }
  void new_episode() {
    for (auto& e : thread_exited)
      e = false;
  }
  // ---- cell history (values are unique except null: every node is published at most once, with one mark value)
  void cell_write(int cell, uint64_t old_value, uint64_t new_value, uint64_t call, uint64_t ret) {
    xrt::Quiet q;
    cell_hist[(size_t)cell].push_back({old_value, new_value, call, ret});
  }
  // Could the non-null `value` have been the content of the cell at some instant of [call, ret]? One-sided: answers
  // false only if it definitely could not. A value may be installed several times (lock_free_ref_count recycles
  // addresses); installs and replacements of one value alternate, every replacement belongs to an earlier install.
  bool cell_possibly_held(int cell, uint64_t value, uint64_t call, uint64_t ret) {
    auto& hist = cell_hist[(size_t)cell];
    int installs = 0, replaced_before = 0;
    for (auto& w : hist) {
      if (w.new_value == value && w.call <= ret)
        installs++;
      if (w.old_value == value && w.ret < call)
        replaced_before++;
    }
    return installs > replaced_before;
  }
  // Did the cell hold the non-null `value` during the whole interval [call, ret]? (definite fact, one-sided)
  bool cell_definitely_held_throughout(int cell, uint64_t value, uint64_t call, uint64_t ret) {
    auto& hist = cell_hist[(size_t)cell];
    int installed_before = 0, maybe_replaced = 0;
    for (auto& w : hist) {
      if (w.new_value == value && w.ret < call)
        installed_before++;
      if (w.old_value == value && w.call <= ret)
        maybe_replaced++;
    }
    return installed_before > maybe_replaced;
  }

  void snapshot_obs(uint8_t kind, int cell, uint64_t value, uint64_t call, uint64_t ret, int64_t id) {
    xrt::Quiet q;
    snapshots.push_back({kind, cell, value, call, ret, id});
  }
  void check_snapshots() {
    for (auto& o : snapshots) {
      if (o.kind == 0 && !cell_possibly_held(o.cell, o.value, o.call, o.ret))
        err("C15", "snapshot-never-held",
            hz::fmt("acquire returned node %" PRId64 " which the source cell %d cannot have held during the call [%" PRIu64
                    ",%" PRIu64 "]", o.id, o.cell, o.call, o.ret));
      if (o.kind == 1 && cell_definitely_held_throughout(o.cell, o.value, o.call, o.ret))
        err("C15", "acquire-if-equal-false-but-equal",
            hz::fmt("acquire_if_equal returned false although cell %d held the expected node %" PRId64
                    " during the whole call [%" PRIu64 ",%" PRIu64 "]", o.cell, o.id, o.call, o.ret));
    }
    snapshots.clear();
  }

  // nodes known to the registry whose memory is still allocated and that are not yet destroyed (pending reclamation)
  uint64_t undestroyed_nodes() const {
    uint64_t n = carried.size();
    for (auto& r : recs)
      if (r.dtor_count == 0)
        ++n;
    return n;
  }

  // census at the quiescent end (after the flush): every retired node destroyed exactly once
  bool census_complete() const {
    for (auto& r : recs)
      if (!r.dummy && r.retire_count && r.dtor_count == 0)
        return false;
    return true;
  }
  void census(bool after_flush) {
    for (auto& r : recs) {
      if (r.dummy)
        continue;
      if (r.retire_count && r.dtor_count == 0 && after_flush)
        err("C02", "leaked", hz::fmt("node %" PRId64 " (retired by T%d) was never destroyed although all guards are released and "
                                     "the flush bound was reached", r.id, r.retired_by));
      if (!r.retire_count && r.dtor_count == 0 && after_flush && r.plain_delete_expected)
        err("", "harness-protocol", hz::fmt("node %" PRId64 " never deleted by the harness", r.id));
    }
  }
};

inline LifetimeRegistry& lifetime() {
  static LifetimeRegistry* r = [] {
    xrt::Quiet q;
    return new LifetimeRegistry();
  }();
  return *r;
}

} // namespace mon
