// Tracked element types and the ownership registry (C07) — monitor state is only touched inside xrt::Quiet sections.
#pragma once
#include "../scenarios/harness.h"
#include <memory>

namespace mon {

enum EState : uint8_t { E_NONE = 0, E_CALLER = 1, E_PUSHING = 2, E_QUEUE = 3, E_CONSUMER = 4 };

struct ERec {
  uint8_t state = E_NONE;
  uint8_t dtors = 0;
  bool dtor_expected = false;
  bool dtor_during_push = false;
};

struct ElemRegistry {
  std::unordered_map<int64_t, ERec> m;
  std::string error_kind, error_msg;
  bool queue_dying = false; // the container destructor is running: it may destroy what it still owns
  void reset() {
    m.clear();
    error_kind.clear();
    error_msg.clear();
    queue_dying = false;
  }
  void err(const char* kind, const std::string& msg) {
    xrt::Quiet q; // monitor state: never touched with scheduling points enabled
    if (error_kind.empty()) {
      error_kind = kind;
      error_msg = msg;
    }
  }
  void created(int64_t id) {
    xrt::Quiet q;
    ERec& r = m[id];
    if (r.state != E_NONE)
      err("elem-harness", hz::fmt("id %" PRId64 " created twice", id));
    r.state = E_CALLER;
  }
  // the value is handed to a push/try_push call (it may already be popped by somebody else before the call returns)
  void pushing(int64_t id) {
    xrt::Quiet q;
    ERec& r = m[id];
    if (r.state == E_CALLER)
      r.state = E_PUSHING;
  }
  void push_returned(int64_t id, bool accepted) {
    xrt::Quiet q;
    ERec& r = m[id];
    if (accepted) {
      if (r.state == E_PUSHING) {
        r.state = E_QUEUE;
        if (r.dtor_during_push)
          err("elem-destroyed-in-queue", hz::fmt("value %" PRId64 " was destroyed during the push that accepted it", id));
      }
    } else {
      if (r.state == E_PUSHING)
        r.state = E_CALLER;
      else
        err("elem-rejected-but-consumed", hz::fmt("value %" PRId64 " was rejected by try_push but is in state %d", id, r.state));
    }
  }
  // a successful pop handed `id` to a consumer
  void to_consumer(int64_t id) {
    xrt::Quiet q;
    auto it = m.find(id);
    if (it == m.end() || it->second.state == E_NONE) {
      err("elem-invented", hz::fmt("pop returned value %" PRId64 " which was never created", id));
      return;
    }
    ERec& r = it->second;
    if (r.state == E_CONSUMER)
      err("elem-handed-out-twice", hz::fmt("value %" PRId64 " was returned by two pops", id));
    else if (r.state == E_CALLER)
      err("elem-not-pushed", hz::fmt("pop returned value %" PRId64 " which was not accepted by a push", id));
    if (r.dtors)
      err("elem-destroyed-before-handout", hz::fmt("value %" PRId64 " was already destroyed when a pop returned it", id));
    r.state = E_CONSUMER;
  }
  void expect_dtor(int64_t id) {
    xrt::Quiet q;
    m[id].dtor_expected = true;
  }
  void destroyed(int64_t id) {
    xrt::Quiet q;
    ERec& r = m[id];
    r.dtors++;
    if (r.dtors > 1)
      err("elem-destroyed-twice", hz::fmt("value %" PRId64 " destroyed %d times", id, r.dtors));
    else if (r.state == E_CONSUMER && !r.dtor_expected)
      err("elem-destroyed-after-handout", hz::fmt("value %" PRId64 " was destroyed by the queue after a pop returned it", id));
    else if (r.state == E_QUEUE && !queue_dying && !r.dtor_expected)
      err("elem-destroyed-in-queue", hz::fmt("value %" PRId64 " was destroyed while stored in the live queue", id));
    else if (r.state == E_PUSHING && !r.dtor_expected)
      r.dtor_during_push = true; // legal only if the push rejects the value (by-value parameter destroyed)
  }
  bool alive(int64_t id) {
    xrt::Quiet q;
    auto it = m.find(id);
    return it != m.end() && it->second.dtors == 0;
  }
};

inline ElemRegistry& elems() {
  static ElemRegistry* r = [] {
    xrt::Quiet q;
    return new ElemRegistry();
  }();
  return *r;
}

struct Tracked {
  int64_t id;
  uint32_t canary;
  explicit Tracked(int64_t i) : id(i), canary(0xA11CE) { elems().created(i); }
  Tracked(const Tracked&) = delete;
  ~Tracked() {
    elems().destroyed(id);
    canary = 0xDEAD;
  }
};

// non-trivial movable value type: exactly one valid instance per id
struct Tok {
  int64_t id = -1;
  bool valid = false;
  Tok() noexcept = default;
  explicit Tok(int64_t i) : id(i), valid(true) { elems().created(i); }
  Tok(Tok&& o) noexcept : id(o.id), valid(o.valid) { o.valid = false; }
  Tok& operator=(Tok&& o) noexcept {
    if (this != &o) {
      if (valid)
        elems().destroyed(id);
      id = o.id;
      valid = o.valid;
      o.valid = false;
    }
    return *this;
  }
  Tok(const Tok&) = delete;
  Tok& operator=(const Tok&) = delete;
  ~Tok() {
    if (valid)
      elems().destroyed(id);
    valid = false;
  }
};

// ---- element kinds: uniform interface for the scenarios
struct ElemInt {
  using type = uint32_t;
  static constexpr const char* name = "int";
  static constexpr bool owned = false;   // ownership is not tracked
  static constexpr bool queue_owns = false;
  static type make(int64_t id) { return (uint32_t)id; }
  static int64_t id_of(const type& v) { return (int64_t)v; }
  static bool holds(const type&) { return false; }
  static void consume(type&) {}
  static type empty() { return 0; }
};
struct ElemRaw {
  using type = Tracked*;
  static constexpr const char* name = "raw";
  static constexpr bool owned = true;
  static constexpr bool queue_owns = false; // the queue must never delete raw pointers
  static type make(int64_t id) { return new Tracked(id); }
  static int64_t id_of(const type& v) { return v->id; }
  static bool holds(const type& v) { return v != nullptr; }
  static void consume(type& v) {
    elems().expect_dtor(v->id);
    delete v;
    v = nullptr;
  }
  static type empty() { return nullptr; }
};
struct ElemUptr {
  using type = std::unique_ptr<Tracked>;
  static constexpr const char* name = "uptr";
  static constexpr bool owned = true;
  static constexpr bool queue_owns = true;
  static type make(int64_t id) { return std::make_unique<Tracked>(id); }
  static int64_t id_of(const type& v) { return v->id; }
  static bool holds(const type& v) { return v != nullptr; }
  static void consume(type& v) {
    elems().expect_dtor(v->id);
    v.reset();
  }
  static type empty() { return nullptr; }
};
struct ElemTok {
  using type = Tok;
  static constexpr const char* name = "tok";
  static constexpr bool owned = true;
  static constexpr bool queue_owns = true;
  static type make(int64_t id) { return Tok(id); }
  static int64_t id_of(const type& v) { return v.id; }
  static bool holds(const type& v) { return v.valid; }
  static void consume(type& v) {
    elems().expect_dtor(v.id);
    Tok sink(std::move(v));
  }
  static type empty() { return Tok(); }
};

} // namespace mon
