// Sequential reference models for the WGL checker.
#pragma once
#include "../scenarios/harness.h"

namespace mon {

// ------------------------------------------------------------------------------------------------ queues
enum QKind : uint8_t { Q_PUSH = 1, Q_POP = 2 };
// OpRec conventions: kind Q_PUSH: a = value, b = 1 if weak variant, r = 1 accepted / 0 rejected
//                    kind Q_POP:  b = 1 if weak variant, r = 1 + r2 = value / r = 0 empty
enum PushFail : uint8_t { PF_NEVER, PF_FULL, PF_FULL_INFLIGHT, PF_KFIFO };
enum PopFail : uint8_t { PE_EMPTY, PE_KFIFO };

struct QueueModel {
  using State = std::vector<int64_t>; // oldest first
  int64_t capacity = -1;              // -1 unbounded
  int64_t k = 1;                      // a pop may return any of the k oldest
  int64_t kfifo_min_full = 0;         // PF_KFIFO: rejection legal only if size >= this
  PushFail push_fail = PF_NEVER;
  PopFail pop_fail = PE_EMPTY;
  // Weak executions (C03): the property lists no loss / duplication / invention, delivery order and integrity - not the
  // exactness of 'empty' / 'full' verdicts (two threads with stale views can legally disagree, store-buffering
  // shape). Failed operations of worker threads are then always legal; the main thread's operations happen-after
  // everything and stay exact.
  bool weak = false;

  static void serialize(const State& s, std::string& out) {
    out.append(reinterpret_cast<const char*>(s.data()), s.size() * sizeof(int64_t));
  }

  bool apply(State& s, const hz::OpRec& op) const {
    if (weak && !op.r && op.thread != 0)
      return true;
    if (op.kind == Q_PUSH) {
      if (op.r) {
        if (capacity >= 0 && (int64_t)s.size() >= capacity)
          return false;
        s.push_back(op.a);
        return true;
      }
      if (op.b) // weak variant may fail spuriously
        return true;
      switch (push_fail) {
      case PF_NEVER: return false;
      case PF_FULL: return (int64_t)s.size() >= capacity;
      case PF_FULL_INFLIGHT: return (int64_t)s.size() + (int64_t)op.n_overlap >= capacity;
      case PF_KFIFO: {
        // "at least (segments-1)*k+1 values were stored at some instant of the call": a concurrent push stores its value in a
        // slot before it knows whether the insertion counts (committed()) and may withdraw it again - such a value was
        // physically stored at that instant although its push is rejected or linearized later. Weakest reading of the
        // property: every push in flight concurrently may account for one stored value.
        int64_t stored = (int64_t)s.size() + (int64_t)op.n_overlap_same;
        return stored >= kfifo_min_full && stored > 0;
      }
      }
      return false;
    }
    // pop
    if (op.r) {
      int64_t lim = std::min<int64_t>(k, (int64_t)s.size());
      for (int64_t i = 0; i < lim; ++i)
        if (s[(size_t)i] == op.r2) {
          s.erase(s.begin() + i);
          return true;
        }
      return false;
    }
    if (op.b)
      return true;
    if (pop_fail == PE_EMPTY)
      return s.empty();
    return s.empty() || ((int64_t)s.size() < k && op.overlap);
  }
};

inline std::string queue_op_str(const hz::OpRec& o) {
  std::string s = hz::fmt("T%d ", o.thread);
  if (o.kind == Q_PUSH)
    s += hz::fmt("push%s(%" PRId64 ")->%s", o.b ? "_weak" : "", o.a, o.r ? "ok" : "REJECTED");
  else if (o.r)
    s += hz::fmt("pop%s()->%" PRId64, o.b ? "_weak" : "", o.r2);
  else
    s += hz::fmt("pop%s()->EMPTY", o.b ? "_weak" : "");
  s += hz::fmt(" [%" PRIu64 ",%" PRIu64 "]", o.call, o.ret);
  return s;
}

using hz::history_hash;
using hz::history_nontrivial;
using hz::history_str;

} // namespace mon
