// native.cpp - the harness-facing xrt API on plain pthreads, for builds with the stock sanitizers (-DXV_NATIVE):
// no scheduler and no memory model; real parallel threads, stamps from one global counter (sound real-time order),
// monitors serialised by a recursive mutex that ThreadSanitizer is told to ignore (it must not add happens-before edges
// between library operations), heap / race verdicts come from ASan / TSan themselves (the process dies with a report, the
// driver turns that into a violation record).
#include "xrt.h"

#include <atomic>
#include <cstdarg>
#include <cstdio>
#include <cstring>
#include <mutex>
#include <pthread.h>
#include <sched.h>
#include <vector>

#if defined(__SANITIZE_THREAD__)
extern "C" {
void AnnotateIgnoreSyncBegin(const char* f, int l);
void AnnotateIgnoreSyncEnd(const char* f, int l);
void AnnotateIgnoreReadsBegin(const char* f, int l);
void AnnotateIgnoreReadsEnd(const char* f, int l);
void AnnotateIgnoreWritesBegin(const char* f, int l);
void AnnotateIgnoreWritesEnd(const char* f, int l);
}
  #define XN_IGNORE_BEGIN()                          \
    do {                                             \
      AnnotateIgnoreSyncBegin(__FILE__, __LINE__);   \
      AnnotateIgnoreReadsBegin(__FILE__, __LINE__);  \
      AnnotateIgnoreWritesBegin(__FILE__, __LINE__); \
    } while (0)
  #define XN_IGNORE_END()                          \
    do {                                           \
      AnnotateIgnoreWritesEnd(__FILE__, __LINE__); \
      AnnotateIgnoreReadsEnd(__FILE__, __LINE__);  \
      AnnotateIgnoreSyncEnd(__FILE__, __LINE__);   \
    } while (0)
#else
  #define XN_IGNORE_BEGIN() ((void)0)
  #define XN_IGNORE_END() ((void)0)
#endif

namespace xrt {
namespace {
pthread_mutex_t g_mon; // recursive
pthread_once_t g_once = PTHREAD_ONCE_INIT;
void init_mon() {
  pthread_mutexattr_t a;
  pthread_mutexattr_init(&a);
  pthread_mutexattr_settype(&a, PTHREAD_MUTEX_RECURSIVE);
  pthread_mutex_init(&g_mon, &a);
}
std::atomic<uint64_t> g_stamp{1};
thread_local int t_id = 0;
thread_local uint64_t t_rng = 0x9e3779b97f4a7c15ull;
thread_local int t_pressure = 0;

struct Viol {
  bool set = false;
  char kind[64] = {0};
  char msg[2048] = {0};
} g_viol;
Stats g_stats{};
char g_scenario[64], g_config[96];

struct Start {
  ThreadSpec spec;
  int id;
  uint64_t seed;
  std::atomic<int>* done;    // per-thread exit flags
  int n;
};

uint64_t next_rnd() {
  uint64_t x = t_rng;
  x ^= x << 13;
  x ^= x >> 7;
  x ^= x << 17;
  t_rng = x;
  return x;
}

void* trampoline(void* p) {
  Start* s = (Start*)p;
  t_id = s->id;
  t_rng = s->seed | 1;
  t_pressure = (int)(next_rnd() % 4);
  if (s->spec.start_after >= 0)
    while (!s->done[s->spec.start_after].load(std::memory_order_acquire))
      sched_yield();
  for (uint32_t d = 0; d < s->spec.start_delay && d < 2000; d += 50)
    sched_yield();
  s->spec.fn(s->spec.arg);
  return nullptr;
}
} // namespace

RunResult run(const RunCfg& cfg, const ThreadSpec* specs, int n) {
  std::vector<Start> st((size_t)n);
  std::vector<pthread_t> th((size_t)n);
  std::vector<std::atomic<int>> done((size_t)n);
  for (auto& d : done)
    d.store(0);
  // thread exit (including thread_local destructors) is signalled by joining: a dependent thread polls the flag that the main
  // thread sets after pthread_join, so "start_after" really means "after the TLS destructors of that thread"
  for (int i = 0; i < n; ++i) {
    st[(size_t)i] = Start{specs[i], i + 1, cfg.seed * 0x9e3779b97f4a7c15ull + (uint64_t)i * 0x632be59bd9b4e019ull + 1, done.data(), n};
    pthread_create(&th[(size_t)i], nullptr, trampoline, &st[(size_t)i]);
  }
  // join in an order that respects start_after chains
  std::vector<bool> joined((size_t)n, false);
  for (int round = 0; round < n; ++round)
    for (int i = 0; i < n; ++i) {
      if (joined[(size_t)i])
        continue;
      int dep = specs[i].start_after;
      if (dep >= 0 && !joined[(size_t)dep])
        continue;
      pthread_join(th[(size_t)i], nullptr);
      joined[(size_t)i] = true;
      done[(size_t)i].store(1, std::memory_order_release);
    }
  g_stats.episodes++;
  RunResult r{};
  r.solo_kind = -1;
  return r;
}

uint64_t stamp() { return g_stamp.fetch_add(1, std::memory_order_seq_cst); }
void clock(VC* out) { memset(out, 0, sizeof *out); }
int tid() { return t_id; }
uint64_t rnd() { return next_rnd(); }
void op_begin(int, bool) {
  // interleaving pressure: some threads yield often, some never
  if (t_id && t_pressure && next_rnd() % (uint64_t)(2 + 3 * t_pressure) == 0)
    sched_yield();
}
void op_end() {}
void yield_hint() { sched_yield(); }

void quiet_begin() {}
void quiet_end() {}
void monitor_enter() {
  XN_IGNORE_BEGIN();
  pthread_once(&g_once, init_mon);
  pthread_mutex_lock(&g_mon);
}
void monitor_leave() {
  pthread_mutex_unlock(&g_mon);
  XN_IGNORE_END();
}

void report(const char* kind, const char* fmt, ...) {
  monitor_enter();
  if (!g_viol.set) {
    g_viol.set = true;
    snprintf(g_viol.kind, sizeof g_viol.kind, "%s", kind);
    va_list ap;
    va_start(ap, fmt);
    vsnprintf(g_viol.msg, sizeof g_viol.msg, fmt, ap);
    va_end(ap);
  }
  monitor_leave();
}
bool has_violation() { return g_viol.set; }
const char* violation_kind() { return g_viol.kind; }
const char* violation_msg() { return g_viol.msg; }
void clear_violation() {
  g_viol.set = false;
  g_viol.kind[0] = 0;
  g_viol.msg[0] = 0;
}

bool heap_is_live(const void*) { return true; }
bool heap_is_freed(const void*) { return false; }
uint64_t heap_live_bytes() { return 0; }
uint64_t heap_live_blocks() { return 0; }
uint64_t heap_total_allocs() { return 0; }
uint64_t heap_mark() { return 0; }
uint64_t heap_live_blocks_since(uint64_t) { return 0; }
void heap_dump_live(uint64_t, const char*) {}

const Stats& stats() { return g_stats; }
void set_context(const char* scenario, const char* config, uint64_t, uint64_t) {
  snprintf(g_scenario, sizeof g_scenario, "%s", scenario);
  snprintf(g_config, sizeof g_config, "%s", config);
}
void install_crash_handlers() {}
void set_trace(bool) {}
void main_progress() {}
bool thread_done(int) { return false; }

} // namespace xrt
