// xrt — controlled sanitizer runtime: harness-facing API.
// The runtime (xrt.cpp) implements the TSan compiler ABI (__tsan_atomic*, __tsan_read/write*, fences), a baton
// scheduler over real pthreads, a view/vector-clock memory model with stale-read injection, a happens-before race
// detector and a never-reusing heap with freed/never-allocated shadow. See DESIGN.md section 3.
#pragma once
#include <cstdint>
#include <cstddef>

namespace xrt {

constexpr int MAXT = 8; // thread slots per episode (slot 0 = the unmanaged main thread)

struct VC {
  uint32_t c[MAXT];
};

using ThreadFn = void (*)(void*);

struct ThreadSpec {
  ThreadFn fn;
  void* arg;
  int start_after = -1;     // index (0-based in the spec array) of a thread that must have exited first (adds hb), or -1
  uint32_t start_delay = 0; // not runnable before this many global steps (or until nobody else can run)
};

enum Strategy : int { S_AUTO = -1, S_RW = 0, S_PCT = 1, S_BURST = 2, S_RWPLAIN = 3 };

struct RunCfg {
  uint64_t seed = 1;
  bool weak = false;        // inject stale reads / spurious weak-CAS failures
  bool tso = false;         // x86-TSO machine: per-thread FIFO store buffers (stores other than seq_cst ones become visible later)
  uint32_t window = 16;     // staleness window W in scheduler steps
  bool freeze = false;      // C16: one solo episode per run
  int strategy = S_AUTO;
  uint64_t budget1 = 200000;  // steps before switching to drain mode (no random preemption)
  uint64_t budget2 = 2000000; // steps before declaring a hang
  uint64_t solo_bound = 20000;
};

struct RunResult {
  uint64_t steps, switches, stale_reads, spurious_cas, atomics, plains, fences;
  int strategy;
  bool drain_mode; // budget1 was exceeded
  bool hang;       // budget2 exceeded (a violation of kind "hang" has been recorded)
  uint32_t solo_episodes, solo_max_steps;
  int solo_kind;   // op kind of the solo victim or -1
  bool solo_others_midop;
};

// Runs the given thread bodies as managed threads under the scheduler; returns when all of them (including their
// thread_local destructors) are finished. Must be called from the main thread.
RunResult run(const RunCfg& cfg, const ThreadSpec* specs, int n);

// --- calls for managed threads (and main) ---
uint64_t stamp();             // unique, monotonically increasing logical time (global step counter); is a step itself
void clock(VC* out);          // current thread's vector clock (weak-mode precedence); increments own component
int tid();                    // managed slot 1..MAXT-1, 0 for main
uint64_t rnd();               // scheduler PRNG (recorded nondeterminism)
void op_begin(int kind, bool lockfree); // scheduling point; starts an operation scope (C16)
void op_end();
void yield_hint();            // scheduling point that counts as spinning
// true once the managed thread started from specs[spec_index] of the current run() has finished completely (body and thread_local
// destructors); adds the happens-before edge of a join. Native runtime: always false (callers skip what depends on it).
bool thread_done(int spec_index);

// Monitor sections: hooks are ignored (no scheduling, no race recording) while quiet.
void quiet_begin();
void quiet_end();
#ifdef XV_NATIVE
// native builds (stock sanitizers, xrt/native.cpp): monitor sections are serialised by a recursive mutex that TSan ignores
void monitor_enter();
void monitor_leave();
struct Quiet {
  Quiet() { monitor_enter(); }
  ~Quiet() { monitor_leave(); }
};
#else
struct Quiet {
  Quiet() { quiet_begin(); }
  ~Quiet() { quiet_end(); }
};
#endif

// Violations. The first violation of an episode/execution is kept; all are counted.
void report(const char* kind, const char* fmt, ...) __attribute__((format(printf, 2, 3)));
bool has_violation();
const char* violation_kind();
const char* violation_msg();
void clear_violation();

// Heap oracle queries (monitor use)
bool heap_is_live(const void* p);
bool heap_is_freed(const void* p);
uint64_t heap_live_bytes();   // bytes currently live in the arena
uint64_t heap_live_blocks();
uint64_t heap_total_allocs();
// mark/sweep style census: blocks allocated since mark and still live
uint64_t heap_mark();
uint64_t heap_live_blocks_since(uint64_t mark);
void heap_dump_live(uint64_t mark, const char* tag); // debugging aid: prints the live blocks allocated after mark

struct Stats {
  uint64_t episodes, steps, switches, stale_reads, stale_sites, spurious_cas, atomics, plains, fences, races_checked,
    uaf_checks, allocs, frees, drain_episodes, loc_overflow, shadow_overflow, solo_episodes, solo_max_steps,
    diag_atomic_races;
  uint64_t strategy_count[4];
  uint32_t solo_max_by_kind[128], solo_count_by_kind[128], solo_midop_by_kind[128];
};
const Stats& stats();

// crash context: the harness sets these so that the signal handler can print a replay line
void set_context(const char* scenario, const char* config, uint64_t seed, uint64_t exec_index);
void install_crash_handlers();
// the unmanaged main thread finished one more operation of a long sequential sweep: restart its endless-loop watchdog
void main_progress();
void set_trace(bool on); // print every atomic operation / free to stderr (replay debugging)

} // namespace xrt
