// xrt self-test: litmus shapes must show exactly the outcomes the model allows; heap oracle and race detector cases.
// Compiled with -fsanitize=thread (instrumented), linked against libxrt.a (no libtsan).
#include "xrt.h"
#include <atomic>
#include <cstdio>
#include <cstring>
#include <mutex>
#include <set>
#include <string>

using namespace xrt;

static int failures = 0;
#define CHECK(c, ...)                                                                                                 \
  do {                                                                                                                \
    if (!(c)) {                                                                                                       \
      ++failures;                                                                                                     \
      printf("SELFTEST FAIL %s:%d: ", __FILE__, __LINE__);                                                            \
      printf(__VA_ARGS__);                                                                                            \
      printf("\n");                                                                                                   \
    }                                                                                                                 \
  } while (0)

struct Shared {
  std::atomic<int> x{0}, y{0}, z{0};
  int data = 0, data2 = 0;
  int r[8] = {0};
  std::mutex mtx;
};
static Shared* S;
static std::memory_order MO_ST, MO_LD;

template <class F>
static std::set<std::string> explore(int n_episodes, bool weak, int nthreads, ThreadFn* fns, F outcome,
                                     const char** first_violation = nullptr, std::string* vmsg = nullptr) {
  std::set<std::string> seen;
  for (int e = 0; e < n_episodes; ++e) {
    S = new Shared();
    ThreadSpec specs[4];
    for (int i = 0; i < nthreads; ++i) {
      specs[i].fn = fns[i];
      specs[i].arg = nullptr;
    }
    RunCfg cfg;
    cfg.seed = 1000 + e;
    cfg.weak = weak;
    run(cfg, specs, nthreads);
    seen.insert(outcome());
    if (has_violation()) {
      if (first_violation && !*first_violation) {
        static char kindbuf[64];
        snprintf(kindbuf, sizeof kindbuf, "%s", violation_kind());
        *first_violation = kindbuf;
        if (vmsg)
          *vmsg = violation_msg();
      }
      clear_violation();
    }
    delete S;
  }
  return seen;
}

static std::string out2() {
  char b[32];
  snprintf(b, sizeof b, "%d%d", S->r[0], S->r[1]);
  return b;
}
static std::string out4() {
  char b[32];
  snprintf(b, sizeof b, "%d%d%d%d", S->r[0], S->r[1], S->r[2], S->r[3]);
  return b;
}

// ---- MP: message passing
static void mp_w(void*) {
  S->data = 1;
  S->x.store(1, MO_ST);
}
static void mp_r(void*) {
  int f = S->x.load(MO_LD);
  S->r[0] = f;
  if (f)
    S->r[1] = S->data;
}
// MP with atomics only (data as relaxed atomic) to observe staleness instead of a race
static void mpa_w(void*) {
  S->y.store(1, std::memory_order_relaxed);
  S->x.store(1, MO_ST);
}
static void mpa_r(void*) {
  S->r[0] = S->x.load(MO_LD);
  S->r[1] = S->y.load(std::memory_order_relaxed);
}
// MP with fences
static void mpf_w(void*) {
  S->y.store(1, std::memory_order_relaxed);
  std::atomic_thread_fence(std::memory_order_release);
  S->x.store(1, std::memory_order_relaxed);
}
static void mpf_r(void*) {
  S->r[0] = S->x.load(std::memory_order_relaxed);
  std::atomic_thread_fence(std::memory_order_acquire);
  S->r[1] = S->y.load(std::memory_order_relaxed);
}
// SB
static void sb_a(void*) {
  S->x.store(1, MO_ST);
  S->r[0] = S->y.load(MO_LD);
}
static void sb_b(void*) {
  S->y.store(1, MO_ST);
  S->r[1] = S->x.load(MO_LD);
}
static void sbf_a(void*) {
  S->x.store(1, std::memory_order_relaxed);
  std::atomic_thread_fence(std::memory_order_seq_cst);
  S->r[0] = S->y.load(std::memory_order_relaxed);
}
static void sbf_b(void*) {
  S->y.store(1, std::memory_order_relaxed);
  std::atomic_thread_fence(std::memory_order_seq_cst);
  S->r[1] = S->x.load(std::memory_order_relaxed);
}
// CoRR: two reads of the same location by one thread never go backwards
static void corr_w(void*) {
  S->x.store(1, std::memory_order_relaxed);
  S->x.store(2, std::memory_order_relaxed);
}
static void corr_r(void*) {
  S->r[0] = S->x.load(std::memory_order_relaxed);
  S->r[1] = S->x.load(std::memory_order_relaxed);
}
// IRIW with acquire loads: readers may disagree (allowed), with seq_cst they may not
static void iriw_w1(void*) { S->x.store(1, MO_ST); }
static void iriw_w2(void*) { S->y.store(1, MO_ST); }
static void iriw_r1(void*) {
  S->r[0] = S->x.load(MO_LD);
  S->r[1] = S->y.load(MO_LD);
}
static void iriw_r2(void*) {
  S->r[2] = S->y.load(MO_LD);
  S->r[3] = S->x.load(MO_LD);
}
// release sequence through RMWs: T1 release-stores 1, T2 relaxed fetch_add, T3 acquires value 2 => sees data
static void rs_w(void*) {
  S->data = 7;
  S->x.store(1, std::memory_order_release);
}
static void rs_rmw(void*) {
  int exp = 1;
  S->x.compare_exchange_strong(exp, 2, std::memory_order_relaxed);
}
static void rs_r(void*) {
  if (S->x.load(std::memory_order_acquire) == 2)
    S->r[0] = S->data;
}
// own release sequence continued by an acquire-only RMW of the same thread after an OLDER release fence: a reader
// that acquires the RMW's value must still synchronize with the release store (regression test for the runtime)
static void rsf_w(void*) {
  std::atomic_thread_fence(std::memory_order_release);
  S->data = 7;
  S->x.store(1, std::memory_order_release);
  int exp = 1;
  S->x.compare_exchange_strong(exp, 2, std::memory_order_acquire, std::memory_order_relaxed);
}
static void rsf_r(void*) {
  if (S->x.load(std::memory_order_acquire) == 2)
    S->r[0] = S->data;
}
// CAS counter: no lost updates even with stale reads
static void cnt(void*) {
  for (int i = 0; i < 3; ++i) {
    int v = S->x.load(std::memory_order_relaxed);
    while (!S->x.compare_exchange_weak(v, v + 1, std::memory_order_relaxed)) {
    }
  }
}
// mutex protected plain data
static void mtx_inc(void*) {
  for (int i = 0; i < 2; ++i) {
    std::lock_guard<std::mutex> g(S->mtx);
    S->data++;
  }
}
// unprotected plain data
static void racy_inc(void*) { S->data2++; }
// spin-wait (blocking shape): must terminate under every strategy
static void spin_w(void*) {
  S->data = 5;
  S->x.store(1, std::memory_order_release);
}
static void spin_r(void*) {
  while (S->x.load(std::memory_order_acquire) == 0) {
  }
  S->r[0] = S->data;
}
// function-local static
struct Lazy {
  int v;
  Lazy() : v(42) {}
};
static Lazy& lazy() {
  static Lazy* l = new Lazy();
  return *l;
}
static void use_lazy(void*) { S->r[tid()] = lazy().v; }

// heap
static int* g_ptr;
static void uaf_free(void*) {
  if (S->x.exchange(1) == 0) {
  }
  delete g_ptr;
}
static void uaf_use(void*) { S->r[0] = *g_ptr; }

// thread_local destructor runs as scheduled code
struct TL {
  ~TL() {
    if (S)
      S->z.fetch_add(1, std::memory_order_relaxed);
  }
  int touch = 0;
};
static thread_local TL tl;
static void tl_body(void*) { tl.touch++; }


// ---- x86-TSO engine litmus (store buffering) ----
struct TsoS {
  std::atomic<int> x{0}, y{0};
  int r0 = 0, r1 = 0;
};
static TsoS* tso_s;
static std::memory_order tso_st;
static void tso_a(void*) {
  tso_s->x.store(1, tso_st);
  tso_s->r0 = tso_s->y.load(std::memory_order_seq_cst);
}
static void tso_b(void*) {
  tso_s->y.store(1, tso_st);
  tso_s->r1 = tso_s->x.load(std::memory_order_seq_cst);
}
static void tso_af(void*) {
  tso_s->x.store(1, std::memory_order_release);
  std::atomic_thread_fence(std::memory_order_seq_cst);
  tso_s->r0 = tso_s->y.load(std::memory_order_acquire);
}
static void tso_bf(void*) {
  tso_s->y.store(1, std::memory_order_release);
  std::atomic_thread_fence(std::memory_order_seq_cst);
  tso_s->r1 = tso_s->x.load(std::memory_order_acquire);
}
// message passing must never be reordered on TSO
static void tso_mp_w(void*) {
  tso_s->x.store(1, std::memory_order_relaxed);
  tso_s->y.store(1, std::memory_order_relaxed);
}
static void tso_mp_r(void*) {
  tso_s->r0 = tso_s->y.load(std::memory_order_relaxed);
  tso_s->r1 = tso_s->x.load(std::memory_order_relaxed);
}
static std::set<std::string> tso_outcomes(ThreadFn f, ThreadFn g) {
  std::set<std::string> out;
  for (int e = 0; e < 2000; ++e) {
    tso_s = new TsoS();
    ThreadSpec sp[2];
    sp[0].fn = f;
    sp[1].fn = g;
    RunCfg c;
    c.seed = (uint64_t)e;
    c.tso = true;
    run(c, sp, 2);
    out.insert(std::to_string(tso_s->r0) + std::to_string(tso_s->r1));
    delete tso_s;
  }
  return out;
}

int main() {
  install_crash_handlers();
  const int N = 3000;
  const char* viol = nullptr;
  // MP rel/acq, plain data: never a race, never stale data
  {
    MO_ST = std::memory_order_release;
    MO_LD = std::memory_order_acquire;
    ThreadFn f[] = {mp_w, mp_r};
    viol = nullptr;
    auto s = explore(N, true, 2, f, out2, &viol);
    CHECK(!viol, "MP rel/acq reported %s", viol);
    CHECK(!s.count("10"), "MP rel/acq saw flag without data");
    CHECK(s.count("11") && s.count("00"), "MP outcomes missing");
  }
  // MP relaxed store: the race detector must fire
  {
    MO_ST = std::memory_order_relaxed;
    MO_LD = std::memory_order_acquire;
    ThreadFn f[] = {mp_w, mp_r};
    viol = nullptr;
    explore(N, false, 2, f, out2, &viol);
    CHECK(viol && !strcmp(viol, "race"), "MP relaxed store: no race reported in SC mode");
    viol = nullptr;
    explore(N, true, 2, f, out2, &viol);
    CHECK(viol && !strcmp(viol, "race"), "MP relaxed store: no race reported in weak mode");
  }
  // MP relaxed load
  {
    MO_ST = std::memory_order_release;
    MO_LD = std::memory_order_relaxed;
    ThreadFn f[] = {mp_w, mp_r};
    viol = nullptr;
    explore(N, false, 2, f, out2, &viol);
    CHECK(viol && !strcmp(viol, "race"), "MP relaxed load: no race reported");
  }
  // atomic MP: rel/acq forbids 10; relaxed allows it in weak mode only
  {
    MO_ST = std::memory_order_release;
    MO_LD = std::memory_order_acquire;
    ThreadFn f[] = {mpa_w, mpa_r};
    auto s = explore(N, true, 2, f, out2);
    CHECK(!s.count("10"), "atomic MP rel/acq saw 10");
    MO_ST = std::memory_order_relaxed;
    s = explore(N, true, 2, f, out2);
    CHECK(s.count("10"), "atomic MP relaxed never saw 10 in weak mode");
    s = explore(N, false, 2, f, out2);
    CHECK(!s.count("10"), "atomic MP relaxed saw 10 in SC mode");
  }
  // fence MP
  {
    ThreadFn f[] = {mpf_w, mpf_r};
    auto s = explore(N, true, 2, f, out2);
    CHECK(!s.count("10"), "fence MP saw 10");
    CHECK(s.count("11") && s.count("00") && s.count("01"), "fence MP outcomes missing");
  }
  // SB
  {
    MO_ST = std::memory_order_release;
    MO_LD = std::memory_order_acquire;
    ThreadFn f[] = {sb_a, sb_b};
    auto s = explore(N, true, 2, f, out2);
    CHECK(s.count("00"), "SB rel/acq never saw 00 in weak mode");
    s = explore(N, false, 2, f, out2);
    CHECK(!s.count("00"), "SB saw 00 in SC mode");
    MO_ST = std::memory_order_seq_cst;
    MO_LD = std::memory_order_seq_cst;
    s = explore(N, true, 2, f, out2);
    CHECK(!s.count("00"), "SB seq_cst saw 00");
    CHECK(s.size() == 3, "SB seq_cst outcomes %zu", s.size());
    ThreadFn g[] = {sbf_a, sbf_b};
    s = explore(N, true, 2, g, out2);
    CHECK(!s.count("00"), "SB with seq_cst fences saw 00");
  }
  // CoRR
  {
    ThreadFn f[] = {corr_w, corr_r};
    auto s = explore(N, true, 2, f, out2);
    CHECK(!s.count("10") && !s.count("20") && !s.count("21"), "CoRR violated");
    CHECK(s.count("02") && s.count("12") && s.count("01"), "CoRR outcomes missing (%zu)", s.size());
  }
  // IRIW
  {
    MO_ST = std::memory_order_release;
    MO_LD = std::memory_order_acquire;
    ThreadFn f[] = {iriw_w1, iriw_w2, iriw_r1, iriw_r2};
    auto s = explore(3 * N, true, 4, f, out4);
    CHECK(s.count("1010"), "IRIW rel/acq never disagreed");
    MO_ST = std::memory_order_seq_cst;
    MO_LD = std::memory_order_seq_cst;
    s = explore(3 * N, true, 4, f, out4);
    CHECK(!s.count("1010"), "IRIW seq_cst disagreed");
  }
  // release sequence
  {
    ThreadFn f[] = {rs_w, rs_rmw, rs_r};
    viol = nullptr;
    std::string msg;
    auto s = explore(N, true, 3, f, [] { return std::to_string(S->r[0]); }, &viol, &msg);
    CHECK(!viol, "release sequence: %s %s", viol, msg.c_str());
    CHECK(s.count("7") && s.count("0") && s.size() == 2, "release sequence outcomes");
  }
  {
    ThreadFn f[] = {rsf_w, rsf_r};
    viol = nullptr;
    std::string msg;
    auto s = explore(N, true, 2, f, [] { return std::to_string(S->r[0]); }, &viol, &msg);
    CHECK(!viol, "release store + own acquire-RMW after older release fence: %s %s", viol, msg.c_str());
    CHECK(s.count("7") && s.count("0") && s.size() == 2, "release store + own RMW outcomes");
  }
  // counter
  {
    ThreadFn f[] = {cnt, cnt, cnt};
    auto s = explore(N, true, 3, f, [] { return std::to_string(S->x.load()); });
    CHECK(s.size() == 1 && s.count("9"), "CAS counter lost updates");
    CHECK(stats().stale_reads > 0 && stats().spurious_cas > 0, "no stale reads / spurious failures injected");
  }
  // mutex
  {
    ThreadFn f[] = {mtx_inc, mtx_inc, mtx_inc};
    viol = nullptr;
    auto s = explore(N, true, 3, f, [] { return std::to_string(S->data); }, &viol);
    CHECK(!viol, "mutex: %s", viol);
    CHECK(s.size() == 1 && s.count("6"), "mutex counter");
    ThreadFn g[] = {racy_inc, racy_inc};
    viol = nullptr;
    explore(200, false, 2, g, [] { return std::string(); }, &viol);
    CHECK(viol && !strcmp(viol, "race"), "unprotected increment: no race");
  }
  // spin wait
  {
    ThreadFn f[] = {spin_r, spin_w};
    viol = nullptr;
    auto s = explore(N, true, 2, f, [] { return std::to_string(S->r[0]); }, &viol);
    CHECK(!viol, "spin: %s", viol);
    CHECK(s.size() == 1 && s.count("5"), "spin outcome");
  }
  // static local
  {
    ThreadFn f[] = {use_lazy, use_lazy, use_lazy};
    viol = nullptr;
    std::string msg;
    auto s = explore(300, true, 3, f, [] { return std::to_string(S->r[1] + S->r[2] + S->r[3]); }, &viol, &msg);
    CHECK(!viol, "static local: %s %s", viol, msg.c_str());
    CHECK(s.size() == 1 && s.count("126"), "static local outcome");
  }
  // use after free / double free
  {
    std::set<std::string> kinds;
    for (int e = 0; e < 300; ++e) {
      S = new Shared();
      g_ptr = new int(3);
      ThreadSpec specs[2];
      specs[0].fn = uaf_free;
      specs[1].fn = uaf_use;
      RunCfg cfg;
      cfg.seed = e;
      run(cfg, specs, 2);
      if (has_violation())
        kinds.insert(violation_kind());
      clear_violation();
      delete S;
    }
    CHECK(kinds.count("use-after-free"), "UAF not detected");
    int* p = new int(1);
    delete p;
    delete p;
    CHECK(has_violation() && !strcmp(violation_kind(), "double-free"), "double free not detected");
    clear_violation();
    CHECK(heap_is_freed(p), "heap_is_freed");
  }
  // thread_local destructors are scheduled and counted before run() returns
  {
    S = new Shared();
    ThreadSpec specs[3];
    for (auto& s : specs)
      s.fn = tl_body;
    RunCfg cfg;
    run(cfg, specs, 3);
    CHECK(S->z.load() == 3, "thread_local destructors ran: %d", S->z.load());
    delete S;
    S = nullptr;
  }
  // x86-TSO engine: store buffering visible exactly when the stores are not seq_cst and no full fence separates store and load
  {
    tso_st = std::memory_order_release;
    auto o = tso_outcomes(tso_a, tso_b);
    CHECK(o.count("00"), "TSO: SB with release stores must show r0=r1=0");
    tso_st = std::memory_order_seq_cst;
    o = tso_outcomes(tso_a, tso_b);
    CHECK(!o.count("00"), "TSO: SB with seq_cst stores must not show r0=r1=0");
    o = tso_outcomes(tso_af, tso_bf);
    CHECK(!o.count("00"), "TSO: SB with a seq_cst fence must not show r0=r1=0");
    o = tso_outcomes(tso_mp_w, tso_mp_r);
    CHECK(!o.count("10"), "TSO: message passing must not be reordered (saw y=1, x=0)");
    CHECK(o.count("11") && o.count("00"), "TSO: MP outcomes explored");
  }
  const Stats& st = stats();
  printf("selftest: episodes=%llu steps=%llu switches=%llu stale_reads=%llu stale_sites=%llu spurious=%llu "
         "strategies=%llu/%llu/%llu/%llu failures=%d\n",
         (unsigned long long)st.episodes, (unsigned long long)st.steps, (unsigned long long)st.switches,
         (unsigned long long)st.stale_reads, (unsigned long long)st.stale_sites, (unsigned long long)st.spurious_cas,
         (unsigned long long)st.strategy_count[0], (unsigned long long)st.strategy_count[1],
         (unsigned long long)st.strategy_count[2], (unsigned long long)st.strategy_count[3], failures);
  return failures ? 1 : 0;
}
