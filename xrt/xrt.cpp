// xrt runtime — compiled WITHOUT -fsanitize=thread. See xrt.h / DESIGN.md section 3.
#include "xrt.h"

#include <cerrno>
#include <climits>
#include <csignal>
#include <cstdarg>
#include <cstdio>
#include <cstdlib>
#include <cstring>
#include <dlfcn.h>
#include <linux/futex.h>
#include <new>
#include <pthread.h>
#include <sched.h>
#include <sys/mman.h>
#include <sys/syscall.h>
#include <unistd.h>

namespace xrt {

// ------------------------------------------------------------------------------------------------ utilities
static inline uint64_t splitmix(uint64_t& s) {
  uint64_t z = (s += 0x9e3779b97f4a7c15ull);
  z = (z ^ (z >> 30)) * 0xbf58476d1ce4e5b9ull;
  z = (z ^ (z >> 27)) * 0x94d049bb133111ebull;
  return z ^ (z >> 31);
}

static void* xmap(size_t bytes) {
  void* p = mmap(nullptr, bytes, PROT_READ | PROT_WRITE, MAP_PRIVATE | MAP_ANONYMOUS | MAP_NORESERVE, -1, 0);
  if (p == MAP_FAILED) {
    fprintf(stderr, "xrt: mmap of %zu bytes failed\n", bytes);
    _exit(2);
  }
  return p;
}

static inline void vc_join(VC& a, const VC& b) {
  for (int i = 0; i < MAXT; ++i)
    if (b.c[i] > a.c[i])
      a.c[i] = b.c[i];
}
static inline void vc_zero(VC& a) { memset(&a, 0, sizeof a); }

// ------------------------------------------------------------------------------------------------ threads
enum TState { T_UNUSED = 0, T_WAITING = 1, T_RUNNABLE = 2, T_BLOCKED = 3, T_DONE = 4 };

constexpr int MAXSTACK = 64;

struct Thread {
  int id;
  int state;
  int go; // futex word
  VC vc, acq_pending, rel_fence;
  int quiet;
  uint64_t steps;
  uint64_t plain_run; // plain accesses since the last scheduling point (loops without atomics must end, too)
  uint32_t spin;
  int prio;
  const void* blocked_on;
  int start_after; // thread slot or -1
  uint64_t start_delay;
  ThreadFn fn;
  void* arg;
  pthread_t pt;
  bool in_op, op_lockfree;
  int op_kind;
  uint64_t op_steps;
  int sb_n; // TSO mode: FIFO store buffer, sb[0] is the oldest entry
  struct SBEntry {
    uintptr_t addr;
    uint64_t val;
    uint64_t deadline;
    uint32_t wclk;
    uint8_t size, has_own;
    VC own;
  } sb[32];
  int sp;
  void* stack[MAXSTACK];
};
constexpr int SBMAX = 32;

struct Violation {
  bool set;
  char kind[48];
  char msg[1024];
  uint64_t count;
  uint64_t storm; // reports since clear_violation()
};

enum { K_PR = 0, K_PW = 1, K_AR = 2, K_AW = 3 };

struct Cell { // race shadow for one 8-byte word
  uintptr_t word;
  uint32_t gen;
  uint32_t clk[MAXT][4];
  uint8_t mask[MAXT][4];
  uint8_t has_atomic;
  void* pc[MAXT][4];
};

struct Head {
  uint8_t tid;
  VC vc;
};
constexpr int KEEP = 6;
struct Msg {
  uint64_t val;
  uint32_t ts;
  uint8_t writer; // 0xff = initial
  uint32_t wclk;
  uint64_t step; // global step when appended
  uint8_t nheads;
  Head heads[MAXT];
};
struct Obs {
  uint32_t clk, ts;
};
struct Loc {
  uintptr_t addr;
  uint32_t gen;
  uint8_t size;
  uint8_t nmsg; // 0 = needs re-initialisation from real memory
  uint8_t first; // ring start
  uint32_t next_ts;
  Msg msg[KEEP];
  uint8_t nobs[MAXT];
  Obs obs[MAXT][KEEP + 2];
};

struct MutexRec {
  const void* addr;
  uint32_t gen;
  int owner; // thread slot or 0
  VC vc;
};

constexpr size_t CELLS = 1u << 17;
constexpr size_t LOCS = 1u << 13;
constexpr size_t MUTEXES = 256;
constexpr size_t SITES = 1u << 12;

struct Global {
  bool inited;
  bool running; // an episode is active
  Thread thr[MAXT];
  int nthr; // slots in use in this episode (1..nthr-1 are workers)
  int cur;
  int main_go;
  int live; // workers not done
  uint64_t steps, switches;
  uint64_t stamp; // never reset: logical time for histories
  uint64_t prng;
  RunCfg cfg;
  int strategy;
  uint32_t rw_p;      // switch probability * 2^32
  uint32_t plain_q;   // plain access preemption probability * 2^32
  uint32_t stale_p;   // probability of considering a stale message * 2^32
  uint64_t cp[8];
  int ncp;
  int low_prio;
  bool drain;
  bool hang;
  // freeze
  uint64_t freeze_at;
  int solo; // thread slot running solo, 0 none
  bool solo_armed, solo_done;
  uint64_t solo_steps;
  RunResult rr;
  VC sc; // seq_cst fence clock
  uint32_t gen;
  Cell* cells;
  uint64_t unmanaged_atomics;
  Loc* locs;
  size_t nlocs_used, ncells_used;
  MutexRec mutexes[MUTEXES];
  uintptr_t sites[SITES];
  Violation viol;
  Stats st;
  uint64_t avg_steps;
  bool race_off;
  // context
  char scenario[64], config[96];
  uint64_t ctx_seed, ctx_exec;
};

static Global G;
static bool g_trace = false;
static bool g_trace_stale = getenv("XRT_TRACE_STALE") != nullptr;
static thread_local Thread* self = nullptr;
static pthread_key_t exit_key;

static inline uint64_t grand() { return splitmix(G.prng); }
static inline bool chance(uint32_t p32) { return (uint32_t)(grand() >> 32) < p32; }

// ------------------------------------------------------------------------------------------------ heap
constexpr size_t ARENA = 1ull << 31; // 2 GiB virtual
constexpr size_t UNIT = 16;
enum { H_NONE = 0, H_LIVE = 1, H_FREED = 2 };

struct Heap {
  char* base;
  uint8_t* state;  // per unit
  uint32_t* sizes; // per unit (block start only)
  size_t bump;
  int lock;
  uint64_t live_bytes, live_blocks, total_allocs, total_frees;
};
static Heap H;

static void heap_init() {
  if (H.base)
    return;
  H.base = (char*)xmap(ARENA);
  H.state = (uint8_t*)xmap(ARENA / UNIT);
  H.sizes = (uint32_t*)xmap(ARENA / UNIT * sizeof(uint32_t));
  H.bump = 4096;
}
static inline void hlock() {
  while (__atomic_exchange_n(&H.lock, 1, __ATOMIC_ACQUIRE))
    sched_yield();
}
static inline void hunlock() { __atomic_store_n(&H.lock, 0, __ATOMIC_RELEASE); }

static inline bool in_arena(const void* p) { return H.base && (const char*)p >= H.base && (const char*)p < H.base + ARENA; }

static void* heap_alloc(size_t size, size_t align) {
  // monitor / harness allocations (quiet sections, or before the runtime is initialised) live on the libc heap so that
  // the never-reusing arena holds only what the code under test allocates
  if (!self || self->quiet) {
    void* p = align > 16 ? aligned_alloc(align, (size + align - 1) & ~(align - 1)) : malloc(size ? size : 1);
    if (!p) {
      fprintf(stderr, "xrt: out of memory\n");
      _exit(2);
    }
    return p;
  }
  heap_init();
  if (align < UNIT)
    align = UNIT;
  if (size == 0)
    size = 1;
  hlock();
  size_t off = (H.bump + align - 1) & ~(align - 1);
  size_t rounded = (size + UNIT - 1) & ~(UNIT - 1);
  if (off + rounded + UNIT > ARENA) {
    hunlock();
    fprintf(stderr, "xrt: arena exhausted\n");
    _exit(2);
  }
  H.bump = off + rounded + UNIT; // one unit red zone (state H_NONE)
  memset(H.state + off / UNIT, H_LIVE, rounded / UNIT);
  H.sizes[off / UNIT] = (uint32_t)size;
  H.live_bytes += size;
  H.live_blocks++;
  H.total_allocs++;
  G.st.allocs++;
  hunlock();
  return H.base + off;
}

static void race_access(Thread* t, uintptr_t addr, size_t size, int kind, void* pc, bool is_free = false);
static void sb_drain_all(Thread* owner);
static void sb_tick();
static void loc_reset_range(uintptr_t addr, size_t size);

static void heap_free(void* p) {
  if (!p)
    return;
  if (!in_arena(p)) {
    free(p); // monitor allocation
    return;
  }
  size_t off = (char*)p - H.base;
  if (off % UNIT != 0 || H.state[off / UNIT] != H_LIVE || H.sizes[off / UNIT] == 0) {
    report(H.state[off / UNIT] == H_FREED ? "double-free" : "bad-free", "delete of %p (state %d)", p,
           (int)H.state[off / UNIT]);
    return;
  }
  size_t size = H.sizes[off / UNIT];
  size_t rounded = (size + UNIT - 1) & ~(UNIT - 1);
  Thread* t = self;
  if (t && t->id > 0 && !t->quiet && G.running) {
    sb_drain_all(t);
    // a free is a write to the whole block
    race_access(t, (uintptr_t)p, rounded, K_PW, __builtin_return_address(0), true);
    loc_reset_range((uintptr_t)p, rounded);
  }
  if (g_trace)
    fprintf(stderr, "TRACE step=%llu T%d free %p size=%zu\n", (unsigned long long)G.stamp, t ? t->id : -1, p, size);
  hlock();
  memset(H.state + off / UNIT, H_FREED, rounded / UNIT);
  H.sizes[off / UNIT] = 0;
  H.live_bytes -= size;
  H.live_blocks--;
  H.total_frees++;
  G.st.frees++;
  hunlock();
}

static inline void heap_check(const void* p, size_t size, void* pc, const char* what) {
  if (!in_arena(p))
    return;
  G.st.uaf_checks++;
  size_t off = (const char*)p - H.base;
  uint8_t s0 = H.state[off / UNIT];
  uint8_t s1 = H.state[(off + size - 1) / UNIT];
  if (s0 != H_LIVE || s1 != H_LIVE) {
    uint8_t s = s0 != H_LIVE ? s0 : s1;
    report(s == H_FREED ? "use-after-free" : "wild-access", "%s of size %zu at %p (%s memory) pc=%p tid=%d", what, size,
           p, s == H_FREED ? "freed" : "never allocated / red zone", pc, self ? self->id : -1);
  }
}

bool heap_is_live(const void* p) { return in_arena(p) && H.state[((const char*)p - H.base) / UNIT] == H_LIVE; }
bool heap_is_freed(const void* p) { return in_arena(p) && H.state[((const char*)p - H.base) / UNIT] == H_FREED; }
uint64_t heap_live_bytes() { return H.live_bytes; }
uint64_t heap_live_blocks() { return H.live_blocks; }
uint64_t heap_total_allocs() { return H.total_allocs; }
uint64_t heap_mark() { return H.bump; }
void heap_dump_live(uint64_t mark, const char* tag) {
  for (size_t u = mark / UNIT; u < H.bump / UNIT; ++u)
    if (H.state[u] == H_LIVE && H.sizes[u] != 0)
      fprintf(stderr, "LIVE[%s] %p size=%u\n", tag, (void*)(H.base + u * UNIT), H.sizes[u]);
}
uint64_t heap_live_blocks_since(uint64_t mark) {
  uint64_t n = 0;
  for (size_t u = mark / UNIT; u < H.bump / UNIT; ++u)
    if (H.state[u] == H_LIVE && H.sizes[u] != 0)
      ++n;
  return n;
}

// ------------------------------------------------------------------------------------------------ violations
static void fatal_json(const char* kind, const char* msg);
void report(const char* kind, const char* fmt, ...) {
  G.viol.count++;
  // a loop over corrupted state (e.g. a cyclic retire list walked by an unmanaged thread) reports for ever: no scheduler budget
  // applies outside run(), so the report counter is the watchdog
  if (++G.viol.storm > 200000) {
    char m[600];
    snprintf(m, sizeof m, "more than 200000 oracle reports since the last execution started (latest kind %s, first: %s %.150s): endless loop over corrupted state",
             kind, G.viol.kind, G.viol.msg);
    fatal_json("hang", m);
  }
  if (G.viol.set) {
    // a heap error is the stronger witness: it replaces an earlier race report of the same execution
    bool heap_kind = !strcmp(kind, "use-after-free") || !strcmp(kind, "double-free") || !strcmp(kind, "wild-access");
    if (!(heap_kind && !strncmp(G.viol.kind, "race", 4)))
      return;
  }
  G.viol.set = true;
  snprintf(G.viol.kind, sizeof G.viol.kind, "%s", kind);
  va_list ap;
  va_start(ap, fmt);
  int n = vsnprintf(G.viol.msg, sizeof G.viol.msg, fmt, ap);
  va_end(ap);
  Thread* t = self;
  if (t && t->sp > 0 && n > 0 && (size_t)n < sizeof G.viol.msg - 32) {
    size_t pos = n;
    pos += snprintf(G.viol.msg + pos, sizeof G.viol.msg - pos, " step=%llu stack:", (unsigned long long)G.steps);
    for (int i = t->sp - 1; i >= 0 && i >= t->sp - 10 && pos < sizeof G.viol.msg - 24; --i)
      if (i < MAXSTACK)
        pos += snprintf(G.viol.msg + pos, sizeof G.viol.msg - pos, " %p", t->stack[i]);
  }
}
bool has_violation() { return G.viol.set; }
const char* violation_kind() { return G.viol.kind; }
const char* violation_msg() { return G.viol.msg; }
void main_progress() { G.unmanaged_atomics = 0; }
void clear_violation() {
  G.viol.storm = 0;
  G.unmanaged_atomics = 0;
  G.viol.set = false;
  G.viol.kind[0] = 0;
  G.viol.msg[0] = 0;
}

// ------------------------------------------------------------------------------------------------ scheduler
static inline void futex_wait(int* addr, int val) { syscall(SYS_futex, addr, FUTEX_WAIT_PRIVATE, val, nullptr, nullptr, 0); }
static inline void futex_wake(int* addr) { syscall(SYS_futex, addr, FUTEX_WAKE_PRIVATE, 1, nullptr, nullptr, 0); }

static void wait_go(Thread* t) {
  for (;;) {
    // short spin: the previous holder usually hands over within a microsecond
    for (int i = 0; i < 200; ++i) {
      if (__atomic_load_n(&t->go, __ATOMIC_ACQUIRE) == 1)
        goto got;
      __builtin_ia32_pause();
    }
    futex_wait(&t->go, 0);
  }
got:
  __atomic_store_n(&t->go, 0, __ATOMIC_RELAXED);
}
static void give_go(Thread* t) {
  __atomic_store_n(&t->go, 1, __ATOMIC_RELEASE);
  futex_wake(&t->go);
}

static void fatal_json(const char* kind, const char* msg);

static inline bool eligible_now(Thread& u, bool force) {
  if (u.state == T_RUNNABLE)
    return true;
  if (u.state == T_WAITING) {
    if (u.start_after > 0) {
      if (G.thr[u.start_after].state != T_DONE)
        return false;
    }
    if (force || G.steps >= u.start_delay)
      return true;
  }
  return false;
}

static void make_runnable(Thread& u) {
  if (u.state == T_WAITING) {
    u.state = T_RUNNABLE;
    if (u.start_after > 0)
      vc_join(u.vc, G.thr[u.start_after].vc);
  }
}

// choose the next thread to run; `must_leave`: the current thread cannot continue (blocked / done / yields)
static int pick(Thread* t, bool must_leave, bool prefer_leave) {
  int cand[MAXT], n = 0;
  for (int i = 1; i < G.nthr; ++i) {
    Thread& u = G.thr[i];
    if (&u == t)
      continue;
    if (eligible_now(u, false))
      cand[n++] = i;
  }
  if (n == 0 && (must_leave || prefer_leave)) {
    for (int i = 1; i < G.nthr; ++i) {
      Thread& u = G.thr[i];
      if (&u != t && eligible_now(u, true))
        cand[n++] = i;
    }
  }
  if (n == 0)
    return must_leave ? -1 : t->id;
  if (must_leave || prefer_leave) {
    if (G.strategy == S_PCT && !G.drain) {
      int best = cand[0];
      for (int i = 1; i < n; ++i)
        if (G.thr[cand[i]].prio > G.thr[best].prio)
          best = cand[i];
      return best;
    }
    return cand[grand() % n];
  }
  if (G.drain)
    return t->id;
  switch (G.strategy) {
  case S_PCT: {
    int best = t->id;
    for (int i = 0; i < n; ++i)
      if (G.thr[cand[i]].prio > G.thr[best].prio)
        best = cand[i];
    return best;
  }
  default:
    if (chance(G.rw_p))
      return cand[grand() % n];
    return t->id;
  }
}

static void switch_to(Thread* t, int next) {
  Thread& u = G.thr[next];
  make_runnable(u);
  G.cur = next;
  G.switches++;
  give_go(&u);
  wait_go(t);
}

constexpr uint32_t SPIN_LIMIT = 48;

static void hang_check(Thread* t) {
  if (G.steps > G.cfg.budget1 && !G.drain) {
    // drain mode: no random preemption and no more injected staleness / spurious failures. The execution continues
    // as a sequentially consistent one from the state reached so far, so that only a hang the code cannot get out of
    // by itself is reported (retry loops that merely keep losing against injected stale reads terminate now).
    G.drain = true;
    G.rr.drain_mode = true;
    G.stale_p = 0;
    G.cfg.weak = false;
    if (G.cfg.tso) {
      for (int i = 1; i < G.nthr; ++i)
        sb_drain_all(&G.thr[i]);
      G.cfg.tso = false;
    }
  }
  if (G.steps > G.cfg.budget2 && !G.hang) {
    G.hang = true;
    G.rr.hang = true;
    report("hang", "no termination within %llu steps (thread %d op kind %d, %d threads live)",
           (unsigned long long)G.cfg.budget2, t->id, t->in_op ? t->op_kind : -1, G.live);
    fatal_json("hang", G.viol.msg);
  }
}

// ev: 0 = neutral, 1 = progress (successful store/RMW), 2 = spin-ish (load / failed CAS / yield)
static void sb_tick();
static void sb_drain_all(Thread* owner);
static void sched_point(Thread* t, int ev) {
  G.steps++;
  G.stamp++;
  t->plain_run = 0;
  if (G.cfg.tso)
    sb_tick();
  t->steps++;
  if (ev == 1)
    t->spin = 0;
  else if (ev == 2)
    t->spin++;
  if (t->in_op)
    t->op_steps++;
  if (G.steps > G.cfg.budget1)
    hang_check(t);

  if (G.solo) {
    if (G.solo == t->id) {
      G.solo_steps++;
      if (G.solo_steps > G.cfg.solo_bound && !G.viol.set) {
        report("solo-bound", "lock-free operation kind %d of thread %d did not finish within %llu solo steps", t->op_kind,
               t->id, (unsigned long long)G.cfg.solo_bound);
        fatal_json("solo-bound", G.viol.msg);
      }
      return; // never switch during a solo episode
    }
  } else if (G.solo_armed && !G.solo_done && G.steps >= G.freeze_at && t->in_op && t->op_lockfree) {
    // start a solo episode for the current thread: everyone else stays frozen wherever they are
    G.solo = t->id;
    G.solo_steps = 0;
    G.rr.solo_kind = t->op_kind;
    bool others = false;
    for (int i = 1; i < G.nthr; ++i)
      if (i != t->id && G.thr[i].in_op && G.thr[i].state != T_DONE && G.thr[i].steps > 0)
        others = true;
    G.rr.solo_others_midop = others;
    return;
  }

  // PCT change points
  if (G.strategy == S_PCT && !G.drain) {
    for (int i = 0; i < G.ncp; ++i)
      if (G.cp[i] == G.steps)
        t->prio = G.low_prio--;
  }
  bool leave = false;
  if (t->spin > SPIN_LIMIT) {
    t->spin = 0;
    leave = true;
    if (G.strategy == S_PCT)
      t->prio = G.low_prio--;
  }
  int next = pick(t, false, leave);
  if (next != t->id)
    switch_to(t, next);
}

static void block_on(Thread* t, const void* obj) {
  sb_drain_all(t);
  t->state = T_BLOCKED;
  t->blocked_on = obj;
  if (G.solo == t->id) {
    report("solo-blocked", "lock-free operation kind %d of thread %d blocks on a lock held by a frozen thread",
           t->op_kind, t->id);
    fatal_json("solo-blocked", G.viol.msg);
  }
  int next = pick(t, true, true);
  if (next < 0) {
    report("deadlock", "all threads blocked (thread %d on %p)", t->id, obj);
    fatal_json("deadlock", G.viol.msg);
  }
  switch_to(t, next);
}

static void thread_done(void* p) {
  Thread* t = (Thread*)p;
  sb_drain_all(t);
  t->state = T_DONE;
  t->in_op = false;
  G.live--;
  if (G.solo == t->id)
    G.solo = 0;
  int next = pick(t, true, true);
  if (next < 0) {
    bool all_done = true;
    for (int i = 1; i < G.nthr; ++i)
      if (G.thr[i].state != T_DONE)
        all_done = false;
    if (!all_done) {
      report("deadlock", "thread %d exited and all remaining threads are blocked", t->id);
      fatal_json("deadlock", G.viol.msg);
    }
    G.cur = 0;
    __atomic_store_n(&G.main_go, 1, __ATOMIC_RELEASE);
    futex_wake(&G.main_go);
    return;
  }
  Thread& u = G.thr[next];
  make_runnable(u);
  G.cur = next;
  G.switches++;
  give_go(&u);
}

static void* trampoline(void* p) {
  Thread* t = (Thread*)p;
  self = t;
  pthread_setspecific(exit_key, t);
  wait_go(t);
  t->fn(t->arg);
  return nullptr; // C++ thread_local destructors run next (still scheduled), then thread_done via the key destructor
}

static void init_once() {
  if (G.inited)
    return;
  G.inited = true;
  heap_init();
  G.cells = (Cell*)xmap(CELLS * sizeof(Cell));
  G.locs = (Loc*)xmap(LOCS * sizeof(Loc));
  G.gen = 1;
  pthread_key_create(&exit_key, thread_done);
  G.thr[0].id = 0;
  G.thr[0].state = T_RUNNABLE;
  for (int i = 0; i < MAXT; ++i)
    G.thr[0].vc.c[i] = 1;
  self = &G.thr[0];
  G.avg_steps = 400;
}

RunResult run(const RunCfg& cfg, const ThreadSpec* specs, int n) {
  init_once();
  if (n < 1 || n > MAXT - 1) {
    fprintf(stderr, "xrt: bad thread count %d\n", n);
    _exit(2);
  }
  Thread& m = G.thr[0];
  G.cfg = cfg;
  G.prng = cfg.seed * 0x2545F4914F6CDD1Dull + 0x1234567;
  grand();
  G.steps = 0;
  G.switches = 0;
  G.drain = false;
  G.hang = false;
  G.solo = 0;
  G.solo_done = false;
  G.solo_armed = cfg.freeze;
  G.race_off = false;
  memset(&G.rr, 0, sizeof G.rr);
  G.rr.solo_kind = -1;
  G.gen++; // drops all race cells, atomic histories and mutex records: everything so far happens-before the new threads
  G.nlocs_used = G.ncells_used = 0;
  vc_zero(G.sc);
  // strategy
  int strat = cfg.strategy;
  if (strat == S_AUTO) {
    uint32_t r = grand() % 100;
    strat = r < 40 ? S_RW : r < 75 ? S_PCT : r < 88 ? S_BURST : S_RWPLAIN;
  }
  G.strategy = strat;
  static const double ps[] = {0.03, 0.1, 0.25, 0.5};
  double p = ps[grand() % 4];
  G.plain_q = 0;
  if (strat == S_BURST)
    p = 0.004;
  if (strat == S_RWPLAIN) {
    G.plain_q = (uint32_t)(0.04 * 4294967296.0);
  }
  G.rw_p = (uint32_t)(p * 4294967295.0);
  static const double sp[] = {0.1, 0.25, 0.5};
  G.stale_p = cfg.weak ? (uint32_t)(sp[grand() % 3] * 4294967295.0) : 0;
  G.ncp = 0;
  G.low_prio = 0;
  if (strat == S_PCT) {
    static const int ds[] = {1, 2, 3, 5};
    G.ncp = ds[grand() % 4];
    uint64_t k = G.avg_steps < 50 ? 50 : G.avg_steps;
    for (int i = 0; i < G.ncp; ++i)
      G.cp[i] = 1 + grand() % k;
  }
  G.freeze_at = cfg.freeze ? 1 + grand() % (G.avg_steps < 20 ? 20 : G.avg_steps) : 0;
  G.nthr = n + 1;
  G.live = n;
  // priorities: random permutation
  int perm[MAXT];
  for (int i = 0; i < n; ++i)
    perm[i] = i;
  for (int i = n - 1; i > 0; --i) {
    int j = grand() % (i + 1);
    int tmp = perm[i];
    perm[i] = perm[j];
    perm[j] = tmp;
  }
  m.vc.c[0]++;
  for (int i = 0; i < n; ++i) {
    Thread& t = G.thr[i + 1];
    uint32_t own = t.vc.c[i + 1] > m.vc.c[i + 1] ? t.vc.c[i + 1] : m.vc.c[i + 1];
    memset(&t, 0, offsetof(Thread, stack));
    t.id = i + 1;
    t.state = T_WAITING;
    t.vc = m.vc;
    t.vc.c[i + 1] = own + 1;
    t.fn = specs[i].fn;
    t.arg = specs[i].arg;
    t.start_after = specs[i].start_after >= 0 ? specs[i].start_after + 1 : -1;
    t.start_delay = specs[i].start_delay;
    t.prio = 100 + perm[i];
  }
  G.running = true;
  pthread_attr_t attr;
  pthread_attr_init(&attr);
  pthread_attr_setstacksize(&attr, 512 * 1024);
  for (int i = 1; i <= n; ++i) {
    if (pthread_create(&G.thr[i].pt, &attr, trampoline, &G.thr[i]) != 0) {
      fprintf(stderr, "xrt: pthread_create failed\n");
      _exit(2);
    }
  }
  pthread_attr_destroy(&attr);
  // first thread
  G.main_go = 0;
  int first = pick(&m, true, true);
  if (first < 0) {
    fprintf(stderr, "xrt: no startable thread\n");
    _exit(2);
  }
  make_runnable(G.thr[first]);
  G.cur = first;
  give_go(&G.thr[first]);
  while (__atomic_load_n(&G.main_go, __ATOMIC_ACQUIRE) == 0)
    futex_wait(&G.main_go, 0);
  for (int i = 1; i <= n; ++i) {
    pthread_join(G.thr[i].pt, nullptr);
    vc_join(m.vc, G.thr[i].vc);
  }
  G.running = false;
  G.rr.steps = G.steps;
  G.rr.switches = G.switches;
  G.rr.strategy = strat;
  G.st.episodes++;
  G.st.steps += G.steps;
  G.st.switches += G.switches;
  G.st.strategy_count[strat]++;
  if (G.rr.drain_mode)
    G.st.drain_episodes++;
  G.st.stale_reads += G.rr.stale_reads;
  G.st.spurious_cas += G.rr.spurious_cas;
  G.st.atomics += G.rr.atomics;
  G.st.plains += G.rr.plains;
  G.st.fences += G.rr.fences;
  if (G.rr.solo_episodes) {
    int k = G.rr.solo_kind & 127;
    G.st.solo_count_by_kind[k]++;
    if (G.rr.solo_others_midop)
      G.st.solo_midop_by_kind[k]++;
    if (G.rr.solo_max_steps > G.st.solo_max_by_kind[k])
      G.st.solo_max_by_kind[k] = G.rr.solo_max_steps;
    G.st.solo_episodes += G.rr.solo_episodes;
    if (G.rr.solo_max_steps > G.st.solo_max_steps)
      G.st.solo_max_steps = G.rr.solo_max_steps;
  }
  if (!G.rr.drain_mode)
    G.avg_steps = (G.avg_steps * 7 + G.steps) / 8;
  return G.rr;
}

// ------------------------------------------------------------------------------------------------ harness calls
static inline bool managed(Thread* t) { return t && t->id > 0 && !t->quiet && G.running; }

uint64_t stamp() { return ++G.stamp; }
void clock(VC* out) {
  init_once();
  Thread* t = self ? self : &G.thr[0];
  *out = t->vc;
  t->vc.c[t->id]++;
}
int tid() { return self ? self->id : 0; }
uint64_t rnd() { return grand(); }
void op_begin(int kind, bool lockfree) {
  Thread* t = self;
  if (!managed(t))
    return;
  t->in_op = true;
  t->op_kind = kind;
  t->op_lockfree = lockfree;
  t->op_steps = 0;
  sched_point(t, 0);
}
void op_end() {
  Thread* t = self;
  if (!managed(t))
    return;
  t->in_op = false;
  if (G.solo == t->id) {
    G.solo = 0;
    G.solo_done = true;
    G.rr.solo_episodes++;
    if (G.solo_steps > G.rr.solo_max_steps)
      G.rr.solo_max_steps = (uint32_t)G.solo_steps;
  }
  sched_point(t, 0);
}
bool thread_done(int spec_index) {
  Thread* t = self;
  int slot = spec_index + 1;
  if (slot < 1 || slot >= G.nthr || G.thr[slot].state != T_DONE)
    return false;
  if (managed(t))
    vc_join(t->vc, G.thr[slot].vc);
  return true;
}
void yield_hint() {
  Thread* t = self;
  if (!managed(t))
    return;
  t->spin += SPIN_LIMIT;
  sched_point(t, 2);
}
void quiet_begin() {
  init_once();
  if (self)
    self->quiet++;
}
void quiet_end() {
  if (self)
    self->quiet--;
}
const Stats& stats() {
  uint64_t n = 0;
  for (size_t i = 0; i < SITES; ++i)
    if (G.sites[i])
      ++n;
  G.st.stale_sites = n;
  return G.st;
}
void set_trace(bool on) { g_trace = on; }
void set_context(const char* scenario, const char* config, uint64_t seed, uint64_t exec_index) {
  snprintf(G.scenario, sizeof G.scenario, "%s", scenario);
  snprintf(G.config, sizeof G.config, "%s", config);
  G.ctx_seed = seed;
  G.ctx_exec = exec_index;
}

static void json_escape(char* out, size_t n, const char* in) {
  size_t o = 0;
  for (; *in && o + 2 < n; ++in) {
    unsigned char ch = (unsigned char)*in;
    if (ch == '"' || ch == '\\') {
      out[o++] = '\\';
      out[o++] = (char)ch;
    } else if (ch < 0x20) {
      out[o++] = ' ';
    } else
      out[o++] = (char)ch;
  }
  out[o] = 0;
}

// Print a one-line JSON record and terminate the process: used for violations after which the execution cannot
// continue (crash, hang, deadlock, solo bound). Exit code 3.
static void fatal_json(const char* kind, const char* msg) {
  char esc[1400];
  json_escape(esc, sizeof esc, msg);
  char buf[2048];
  int n = snprintf(buf, sizeof buf,
                   "\n{\"fatal\":\"%s\",\"scenario\":\"%s\",\"config\":\"%s\",\"seed\":%llu,\"exec\":%llu,\"step\":%llu,"
                   "\"msg\":\"%s\"}\n",
                   kind, G.scenario, G.config, (unsigned long long)G.ctx_seed, (unsigned long long)G.ctx_exec,
                   (unsigned long long)G.steps, esc);
  if (n > 0)
    (void)!write(1, buf, (size_t)n);
  _exit(3);
}

static void crash_handler(int sig, siginfo_t* si, void*) {
  char msg[256];
  Thread* t = self;
  snprintf(msg, sizeof msg, "signal %d addr=%p tid=%d op_kind=%d", sig, si ? si->si_addr : nullptr, t ? t->id : -1,
           t && t->in_op ? t->op_kind : -1);
  if (sig == SIGALRM)
    fatal_json("watchdog", msg);
  fatal_json("crash", msg);
}

void install_crash_handlers() {
  init_once();
  static char altstack[65536];
  stack_t ss;
  ss.ss_sp = altstack;
  ss.ss_size = sizeof altstack;
  ss.ss_flags = 0;
  sigaltstack(&ss, nullptr);
  struct sigaction sa;
  memset(&sa, 0, sizeof sa);
  sa.sa_sigaction = crash_handler;
  sa.sa_flags = SA_SIGINFO | SA_ONSTACK;
  int sigs[] = {SIGSEGV, SIGBUS, SIGFPE, SIGILL, SIGABRT, SIGALRM};
  for (int s : sigs)
    sigaction(s, &sa, nullptr);
}

// ------------------------------------------------------------------------------------------------ race detector
static inline size_t hash_ptr(uintptr_t x) {
  x ^= x >> 33;
  x *= 0xff51afd7ed558ccdull;
  x ^= x >> 29;
  return (size_t)x;
}

static Cell* cell_get(uintptr_t word, bool create) {
  size_t i = hash_ptr(word) & (CELLS - 1);
  for (size_t probe = 0; probe < 64; ++probe, i = (i + 1) & (CELLS - 1)) {
    Cell& c = G.cells[i];
    if (c.gen != G.gen) {
      if (!create || G.ncells_used > CELLS / 2)
        return nullptr;
      memset(&c, 0, sizeof c);
      c.gen = G.gen;
      c.word = word;
      G.ncells_used++;
      return &c;
    }
    if (c.word == word)
      return &c;
  }
  G.st.shadow_overflow++;
  return nullptr;
}

static const char* kind_name(int k) {
  static const char* n[] = {"plain read", "plain write", "atomic read", "atomic write"};
  return n[k];
}

static inline void race_word(Thread* t, uintptr_t word, uint8_t mask, int kind, void* pc, bool is_free) {
  Cell* c = cell_get(word, true);
  if (!c) {
    return;
  }
  G.st.races_checked++;
  // which recorded kinds conflict with this access
  static const uint8_t conflicts[4] = {
    (1 << K_PW) | (1 << K_AW),                           // plain read
    (1 << K_PR) | (1 << K_PW) | (1 << K_AR) | (1 << K_AW), // plain write
    (1 << K_PW),                                         // atomic read
    (1 << K_PR) | (1 << K_PW),                           // atomic write
  };
  uint8_t cf = conflicts[kind];
  if (!G.race_off) {
    for (int u = 1; u < G.nthr; ++u) {
      if (u == t->id)
        continue;
      for (int k = 0; k < 4; ++k) {
        if (!(cf & (1 << k)))
          continue;
        uint32_t ck = c->clk[u][k];
        if (ck && (c->mask[u][k] & mask) && ck > t->vc.c[u]) {
          // Races in which one side is an atomic operation (atomic access vs. the non-atomic initialisation or the
          // deallocation of the atomic object) are outside C03's wording ("plain (non-atomic) object"): they are
          // counted as diagnostics, not reported.
          if (k >= K_AR || kind >= K_AR) {
            G.st.diag_atomic_races++;
            continue;
          }
          report(is_free ? "race-free" : "race",
                 "%s%s by thread %d at %p (pc %p) is unordered with earlier %s by thread %d at pc %p (clock %u > seen %u)",
                 is_free ? "free / " : "", kind_name(kind), t->id, (void*)word, pc, kind_name(k), u, c->pc[u][k], ck,
                 t->vc.c[u]);
        }
      }
    }
  }
  c->clk[t->id][kind] = t->vc.c[t->id];
  c->mask[t->id][kind] = mask;
  c->pc[t->id][kind] = pc;
  if (kind >= K_AR)
    c->has_atomic = 1;
}

static void race_access(Thread* t, uintptr_t addr, size_t size, int kind, void* pc, bool is_free) {
  uintptr_t a = addr, end = addr + size;
  while (a < end) {
    uintptr_t word = a & ~(uintptr_t)7;
    uintptr_t wend = word + 8 < end ? word + 8 : end;
    uint8_t mask = (uint8_t)(((1u << (wend - a)) - 1) << (a - word));
    race_word(t, word, mask, kind, pc, is_free);
    a = wend;
  }
}

// ------------------------------------------------------------------------------------------------ atomic locations
static Loc* loc_find(uintptr_t addr) {
  size_t i = hash_ptr(addr) & (LOCS - 1);
  for (size_t probe = 0; probe < 128; ++probe, i = (i + 1) & (LOCS - 1)) {
    Loc& l = G.locs[i];
    if (l.gen != G.gen)
      return nullptr;
    if (l.addr == addr)
      return &l;
  }
  return nullptr;
}

static uint64_t real_load(uintptr_t addr, int size) {
  switch (size) {
  case 1: return __atomic_load_n((uint8_t*)addr, __ATOMIC_SEQ_CST);
  case 2: return __atomic_load_n((uint16_t*)addr, __ATOMIC_SEQ_CST);
  case 4: return __atomic_load_n((uint32_t*)addr, __ATOMIC_SEQ_CST);
  default: return __atomic_load_n((uint64_t*)addr, __ATOMIC_SEQ_CST);
  }
}
static void real_store(uintptr_t addr, int size, uint64_t v) {
  switch (size) {
  case 1: __atomic_store_n((uint8_t*)addr, (uint8_t)v, __ATOMIC_SEQ_CST); break;
  case 2: __atomic_store_n((uint16_t*)addr, (uint16_t)v, __ATOMIC_SEQ_CST); break;
  case 4: __atomic_store_n((uint32_t*)addr, (uint32_t)v, __ATOMIC_SEQ_CST); break;
  default: __atomic_store_n((uint64_t*)addr, v, __ATOMIC_SEQ_CST); break;
  }
}

static void loc_init_msgs(Loc& l) {
  l.nmsg = 1;
  l.first = 0;
  l.next_ts = 2;
  Msg& m = l.msg[0];
  m.val = real_load(l.addr, l.size);
  m.ts = 1;
  m.writer = 0xff;
  m.wclk = 0;
  m.step = 0;
  m.nheads = 0;
  memset(l.nobs, 0, sizeof l.nobs);
}

static Loc* loc_get(uintptr_t addr, int size) {
  size_t i = hash_ptr(addr) & (LOCS - 1);
  for (size_t probe = 0; probe < 128; ++probe, i = (i + 1) & (LOCS - 1)) {
    Loc& l = G.locs[i];
    if (l.gen != G.gen) {
      if (G.nlocs_used > LOCS / 2)
        break;
      l.gen = G.gen;
      l.addr = addr;
      l.size = (uint8_t)size;
      G.nlocs_used++;
      loc_init_msgs(l);
      return &l;
    }
    if (l.addr == addr) {
      if (l.size != size || l.nmsg == 0) {
        l.size = (uint8_t)size;
        loc_init_msgs(l);
      }
      return &l;
    }
  }
  G.st.loc_overflow++;
  G.race_off = true; // hb edges are lost from here on: no race verdicts for the rest of the episode
  return nullptr;
}

// a plain write (construction, free) over bytes that hold atomic history discards that history
static void loc_reset_range(uintptr_t addr, size_t size) {
  for (uintptr_t w = addr & ~(uintptr_t)7; w < addr + size; w += 8) {
    Cell* c = cell_get(w, false);
    if (!c || !c->has_atomic)
      continue;
    for (uintptr_t a = w; a < w + 8; ++a) {
      if (a < addr || a >= addr + size)
        continue;
      Loc* l = loc_find(a);
      if (l)
        l->nmsg = 0;
    }
  }
}

static inline Msg& msg_at(Loc& l, int i) { return l.msg[(l.first + i) % KEEP]; }

static inline void observe(Loc& l, Thread* t, uint32_t ts) {
  uint8_t& n = l.nobs[t->id];
  Obs* o = l.obs[t->id];
  if (n && o[n - 1].ts >= ts)
    return;
  uint32_t oldest = msg_at(l, 0).ts;
  // prune entries that cannot matter any more (keep the last one <= oldest retained)
  while (n >= 2 && o[1].ts <= oldest) {
    memmove(o, o + 1, sizeof(Obs) * (n - 1));
    n--;
  }
  if (n == KEEP + 2) {
    // capacity: merge the two oldest entries conservatively (claim the newer ts was already seen at the older clock:
    // this only raises other threads' floors, i.e. adds ordering)
    o[1].clk = o[0].clk;
    memmove(o, o + 1, sizeof(Obs) * (n - 1));
    n--;
  }
  o[n].clk = t->vc.c[t->id];
  o[n].ts = ts;
  n++;
}

static inline uint32_t floor_ts(Loc& l, Thread* t) {
  uint32_t f = 0;
  for (int u = 1; u < G.nthr; ++u) {
    uint8_t n = l.nobs[u];
    if (!n)
      continue;
    const Obs* o = l.obs[u];
    if (u == t->id) {
      if (o[n - 1].ts > f)
        f = o[n - 1].ts;
      continue;
    }
    uint32_t bound = t->vc.c[u];
    for (int i = n - 1; i >= 0; --i) {
      if (o[i].clk <= bound) {
        if (o[i].ts > f)
          f = o[i].ts;
        break;
      }
    }
  }
  return f;
}

static inline void msg_rel_join(VC& into, const Msg& m) {
  for (int i = 0; i < m.nheads; ++i)
    vc_join(into, m.heads[i].vc);
}

static inline bool is_acq(int mo) { return mo == 1 || mo == 2 || mo == 4 || mo == 5; }
static inline bool is_rel(int mo) { return mo == 3 || mo == 4 || mo == 5; }

static void fence_sc(Thread* t) {
  vc_join(t->vc, t->acq_pending);
  vc_join(t->vc, G.sc);
  G.sc = t->vc;
  t->rel_fence = t->vc;
  t->vc.c[t->id]++;
}

static void site_note(void* pc) {
  uintptr_t x = (uintptr_t)pc;
  size_t i = hash_ptr(x) & (SITES - 1);
  for (int p = 0; p < 16; ++p, i = (i + 1) & (SITES - 1)) {
    if (G.sites[i] == x)
      return;
    if (!G.sites[i]) {
      G.sites[i] = x;
      return;
    }
  }
}

// read part; returns the chosen message index (in ring order)
static int model_read(Thread* t, Loc& l, int mo, bool force_newest, void* pc) {
  int newest = l.nmsg - 1;
  int pick_i = newest;
  if (!force_newest && G.cfg.weak && newest > 0 && chance(G.stale_p)) {
    uint32_t f = floor_ts(l, t);
    int lo = newest;
    while (lo > 0) {
      const Msg& older = msg_at(l, lo - 1);
      const Msg& superseder = msg_at(l, lo);
      if (older.ts < f)
        break;
      if (G.steps - superseder.step > G.cfg.window)
        break;
      --lo;
    }
    if (lo < newest) {
      pick_i = lo + (int)(grand() % (uint64_t)(newest - lo + 1));
      if (pick_i != newest) {
        G.rr.stale_reads++;
        site_note(pc);
        if (g_trace_stale && (g_trace || getenv("XRT_TRACE_STALE")[0] == 'a'))
          fprintf(stderr, "STALE step=%llu T%d loc=%p read=%llx (ts %u, %d behind) newest=%llx pc=%p\n",
                  (unsigned long long)G.stamp, t->id, (void*)l.addr, (unsigned long long)msg_at(l, pick_i).val,
                  msg_at(l, pick_i).ts, newest - pick_i, (unsigned long long)msg_at(l, newest).val, pc);
        if (g_trace_stale && g_trace) {
          fprintf(stderr, "   floor=%u reader vc=[", f);
          for (int u = 0; u < G.nthr; ++u)
            fprintf(stderr, "%u ", t->vc.c[u]);
          fprintf(stderr, "] msgs:");
          for (int i = 0; i < l.nmsg; ++i)
            fprintf(stderr, " {ts%u val=%llx by T%d@%u step=%llu}", msg_at(l, i).ts, (unsigned long long)msg_at(l, i).val,
                    msg_at(l, i).writer == 0xff ? -1 : msg_at(l, i).writer, msg_at(l, i).wclk, (unsigned long long)msg_at(l, i).step);
          fprintf(stderr, "\n");
        }
      }
    }
  }
  Msg& m = msg_at(l, pick_i);
  observe(l, t, m.ts);
  if (is_acq(mo))
    msg_rel_join(t->vc, m);
  else
    msg_rel_join(t->acq_pending, m);
  return pick_i;
}

// `drained`: the store was executed earlier (TSO store buffer) - use the clocks captured at that time
static void model_write_ex(Thread* t, Loc& l, uint64_t val, int mo, bool rmw, const Thread::SBEntry* drained) {
  Msg* prev = l.nmsg ? &msg_at(l, l.nmsg - 1) : nullptr;
  Msg nm;
  nm.val = val;
  nm.ts = l.next_ts++;
  nm.writer = (uint8_t)t->id;
  nm.wclk = drained ? drained->wclk : t->vc.c[t->id];
  nm.step = G.steps;
  nm.nheads = 0;
  // release sequence inheritance (C++17 rule)
  if (prev) {
    for (int i = 0; i < prev->nheads; ++i) {
      if (rmw || prev->heads[i].tid == t->id)
        nm.heads[nm.nheads++] = prev->heads[i];
    }
  }
  const VC* own = nullptr;
  if (drained)
    own = drained->has_own ? &drained->own : nullptr;
  else if (is_rel(mo))
    own = &t->vc;
  else if (t->rel_fence.c[t->id] != 0)
    own = &t->rel_fence;
  if (own) {
    int slot = -1;
    for (int i = 0; i < nm.nheads; ++i)
      if (nm.heads[i].tid == t->id)
        slot = i;
    if (slot < 0) {
      slot = nm.nheads++;
      nm.heads[slot].tid = (uint8_t)t->id;
      nm.heads[slot].vc = *own;
    } else {
      // the store also continues the thread's own earlier release sequence: keep the stronger of the two clocks
      // (the release-fence clock can be older than the clock of the inherited release store)
      vc_join(nm.heads[slot].vc, *own);
    }
  }
  if (l.nmsg == KEEP) {
    l.first = (uint8_t)((l.first + 1) % KEEP);
    l.nmsg--;
  }
  msg_at(l, l.nmsg) = nm;
  l.nmsg++;
  observe(l, t, nm.ts);
  if (!drained)
    t->vc.c[t->id]++;
  real_store(l.addr, l.size, val);
}
static inline void model_write(Thread* t, Loc& l, uint64_t val, int mo, bool rmw) { model_write_ex(t, l, val, mo, rmw, nullptr); }

// ---- TSO mode: store buffers
static Loc* loc_get(uintptr_t addr, int size);
static void sb_drain_one(Thread* owner) {
  Thread::SBEntry e = owner->sb[0];
  memmove(&owner->sb[0], &owner->sb[1], sizeof(Thread::SBEntry) * (size_t)(owner->sb_n - 1));
  owner->sb_n--;
  Loc* l = loc_get(e.addr, e.size);
  if (l)
    model_write_ex(owner, *l, e.val, 0, false, &e);
  else
    real_store(e.addr, e.size, e.val);
}
static void sb_drain_all(Thread* owner) {
  while (owner->sb_n)
    sb_drain_one(owner);
}
static void sb_tick() {
  for (int i = 1; i < G.nthr; ++i) {
    Thread& u = G.thr[i];
    while (u.sb_n && u.sb[0].deadline <= G.steps)
      sb_drain_one(&u);
  }
}

enum AOp { A_LOAD, A_STORE, A_XCHG, A_ADD, A_SUB, A_AND, A_OR, A_XOR, A_NAND, A_CAS_S, A_CAS_W };

static inline uint64_t trunc(uint64_t v, int size) { return size == 8 ? v : v & ((1ull << (size * 8)) - 1); }

// passthrough for unmanaged / quiet contexts
static uint64_t real_op(AOp op, uintptr_t addr, int size, uint64_t operand, uint64_t* expected, bool* ok) {
#define REAL(T)                                                                                                       \
  {                                                                                                                   \
    T* p = (T*)addr;                                                                                                  \
    switch (op) {                                                                                                     \
    case A_LOAD: return __atomic_load_n(p, __ATOMIC_SEQ_CST);                                                         \
    case A_STORE: __atomic_store_n(p, (T)operand, __ATOMIC_SEQ_CST); return 0;                                        \
    case A_XCHG: return __atomic_exchange_n(p, (T)operand, __ATOMIC_SEQ_CST);                                         \
    case A_ADD: return __atomic_fetch_add(p, (T)operand, __ATOMIC_SEQ_CST);                                           \
    case A_SUB: return __atomic_fetch_sub(p, (T)operand, __ATOMIC_SEQ_CST);                                           \
    case A_AND: return __atomic_fetch_and(p, (T)operand, __ATOMIC_SEQ_CST);                                           \
    case A_OR: return __atomic_fetch_or(p, (T)operand, __ATOMIC_SEQ_CST);                                             \
    case A_XOR: return __atomic_fetch_xor(p, (T)operand, __ATOMIC_SEQ_CST);                                           \
    case A_NAND: return __atomic_fetch_nand(p, (T)operand, __ATOMIC_SEQ_CST);                                         \
    default: {                                                                                                        \
      T e = (T)*expected;                                                                                             \
      *ok = __atomic_compare_exchange_n(p, &e, (T)operand, false, __ATOMIC_SEQ_CST, __ATOMIC_SEQ_CST);                \
      *expected = e;                                                                                                  \
      return e;                                                                                                       \
    }                                                                                                                 \
    }                                                                                                                 \
  }
  switch (size) {
  case 1: REAL(uint8_t)
  case 2: REAL(uint16_t)
  case 4: REAL(uint32_t)
  default: REAL(uint64_t)
  }
#undef REAL
}

static uint64_t atomic_op(AOp op, uintptr_t addr, int size, uint64_t operand, uint64_t* expected, bool* ok, int mo,
                          int fmo, void* pc) {
  Thread* t = self;
  if (!managed(t)) {
    if (t && !t->quiet) {
      heap_check((void*)addr, (size_t)size, pc, "atomic access");
      // no scheduler budget applies to the unmanaged main thread (sequential prefix / drain of a scenario): an endless loop there
      // (e.g. over a list that an earlier execution left inconsistent) is turned into a hang by this counter
      if (++G.unmanaged_atomics > 100000000ull) {
        char m[200];
        snprintf(m, sizeof m, "the unmanaged main thread executed 100 million atomic operations since the last execution started (pc %p): endless loop", pc);
        fatal_json("hang", m);
      }
    }
    return real_op(op, addr, size, operand, expected, ok);
  }
  G.rr.atomics++;
  // scheduling point before the access; classify for the spin detector afterwards
  sched_point(t, 0);
  heap_check((void*)addr, (size_t)size, pc, "atomic access");
  bool reads = op != A_STORE, writes = op != A_LOAD;
  if (reads)
    race_access(t, addr, (size_t)size, K_AR, pc);
  Loc* lp = loc_get(addr, size);
  if (!lp) {
    if (writes && op != A_CAS_S && op != A_CAS_W)
      race_access(t, addr, (size_t)size, K_AW, pc);
    return real_op(op, addr, size, operand, expected, ok);
  }
  Loc& l = *lp;
  bool sc = mo == 5;
  if (G.cfg.tso) {
    // x86-TSO: plain stores (everything but seq_cst) go to the FIFO store buffer, loads are satisfied from the own
    // buffer or from memory, locked instructions (RMW, seq_cst store) and mfence drain the buffer first.
    if (op == A_STORE && !sc) {
      race_access(t, addr, (size_t)size, K_AW, pc);
      if (t->sb_n == SBMAX)
        sb_drain_one(t);
      Thread::SBEntry& e = t->sb[t->sb_n++];
      e.addr = addr;
      e.size = (uint8_t)size;
      e.val = trunc(operand, size);
      e.deadline = G.steps + 1 + grand() % (G.cfg.window ? G.cfg.window : 1);
      e.wclk = t->vc.c[t->id];
      e.has_own = 0;
      if (is_rel(mo)) {
        e.has_own = 1;
        e.own = t->vc;
      } else if (t->rel_fence.c[t->id] != 0) {
        e.has_own = 1;
        e.own = t->rel_fence;
      }
      t->vc.c[t->id]++;
      t->spin = 0;
      G.rr.stale_reads++; // counts buffered stores in this mode
      site_note(pc);
      return 0;
    }
    if (op == A_LOAD) {
      for (int i = t->sb_n - 1; i >= 0; --i) {
        Thread::SBEntry& e = t->sb[i];
        if (e.addr == addr && e.size == size) {
          t->spin++;
          return e.val; // store forwarding
        }
        if (e.addr < addr + (uintptr_t)size && addr < e.addr + e.size) {
          sb_drain_all(t); // partially overlapping access: not modelled, make it visible first
          break;
        }
      }
      int i = model_read(t, l, mo, true, pc); // a seq_cst load is a plain load on x86
      t->spin++;
      return msg_at(l, i).val;
    }
    sb_drain_all(t); // RMW, CAS, seq_cst store
  }
  if (sc)
    fence_sc(t);
  uint64_t result = 0;
  switch (op) {
  case A_LOAD: {
    int i = model_read(t, l, mo, false, pc);
    result = msg_at(l, i).val;
    t->spin++;
    break;
  }
  case A_STORE: {
    race_access(t, addr, (size_t)size, K_AW, pc);
    model_write(t, l, trunc(operand, size), mo, false);
    t->spin = 0;
    break;
  }
  case A_CAS_S:
  case A_CAS_W: {
    uint64_t exp = trunc(*expected, size);
    // a failing CAS is a load with the failure order and may read a stale message
    int i = model_read(t, l, fmo, false, pc);
    uint64_t seen = msg_at(l, i).val;
    bool success = false;
    if (seen == exp) {
      // an RMW must read the newest message
      int newest = l.nmsg - 1;
      uint64_t nv = msg_at(l, newest).val;
      if (nv == exp) {
        if (op == A_CAS_W && G.cfg.weak && chance(1u << 28)) { // spurious failure (1/16)
          G.rr.spurious_cas++;
          seen = exp;
        } else {
          (void)model_read(t, l, mo, true, pc);
          race_access(t, addr, (size_t)size, K_AW, pc);
          model_write(t, l, trunc(operand, size), mo, true);
          success = true;
        }
      } else {
        (void)model_read(t, l, fmo, true, pc);
        seen = nv;
      }
    }
    *ok = success;
    *expected = seen;
    result = seen;
    if (success)
      t->spin = 0;
    else
      t->spin++;
    break;
  }
  default: { // RMW
    int i = model_read(t, l, mo, true, pc);
    uint64_t old = msg_at(l, i).val;
    uint64_t nv = old;
    switch (op) {
    case A_XCHG: nv = operand; break;
    case A_ADD: nv = old + operand; break;
    case A_SUB: nv = old - operand; break;
    case A_AND: nv = old & operand; break;
    case A_OR: nv = old | operand; break;
    case A_XOR: nv = old ^ operand; break;
    case A_NAND: nv = ~(old & operand); break;
    default: break;
    }
    race_access(t, addr, (size_t)size, K_AW, pc);
    model_write(t, l, trunc(nv, size), mo, true);
    result = old;
    t->spin = 0;
    break;
  }
  }
  if (sc)
    fence_sc(t);
  if (g_trace) {
    static const char* opn[] = {"load", "store", "xchg", "add", "sub", "and", "or", "xor", "nand", "cas_s", "cas_w"};
    fprintf(stderr, "TRACE step=%llu T%d %s%d %p operand=%llx result=%llx ok=%d mo=%d clk=%u pc=%p\n",
            (unsigned long long)G.stamp, t->id, opn[op], size * 8, (void*)addr, (unsigned long long)operand,
            (unsigned long long)result, (int)*ok, mo, t->vc.c[t->id], pc);
  }
  return result;
}

static void fence_op(int mo) {
  Thread* t = self;
  if (!managed(t)) {
    __atomic_thread_fence(__ATOMIC_SEQ_CST);
    return;
  }
  G.rr.fences++;
  sched_point(t, 0);
  switch (mo) {
  case 0: break;
  case 1:
  case 2: vc_join(t->vc, t->acq_pending); break;
  case 3:
    t->rel_fence = t->vc;
    t->vc.c[t->id]++;
    break;
  case 4:
    vc_join(t->vc, t->acq_pending);
    t->rel_fence = t->vc;
    t->vc.c[t->id]++;
    break;
  default:
    if (G.cfg.tso)
      sb_drain_all(t);
    fence_sc(t);
    break;
  }
  __atomic_thread_fence(__ATOMIC_SEQ_CST);
}

static inline void plain_access(const void* p, size_t size, bool is_write, void* pc) {
  Thread* t = self;
  if (!t || t->quiet)
    return;
  heap_check(p, size, pc, is_write ? "write" : "read");
  if (!managed(t))
    return;
  G.rr.plains++;
  if (++t->plain_run > 50000000ull) {
    report("hang", "thread %d executed 50 million plain accesses without any atomic operation (op kind %d): endless loop", t->id,
           t->in_op ? t->op_kind : -1);
    fatal_json("hang", G.viol.msg);
  }
  if (G.plain_q && !G.solo && chance(G.plain_q))
    sched_point(t, 0);
  race_access(t, (uintptr_t)p, size, is_write ? K_PW : K_PR, pc);
  if (is_write)
    loc_reset_range((uintptr_t)p, size);
}

// ------------------------------------------------------------------------------------------------ mutexes / guards
static MutexRec* mutex_get(const void* addr) {
  size_t i = hash_ptr((uintptr_t)addr) & (MUTEXES - 1);
  for (size_t probe = 0; probe < MUTEXES; ++probe, i = (i + 1) & (MUTEXES - 1)) {
    MutexRec& m = G.mutexes[i];
    if (m.gen != G.gen) {
      m.gen = G.gen;
      m.addr = addr;
      m.owner = 0;
      vc_zero(m.vc);
      return &m;
    }
    if (m.addr == addr)
      return &m;
  }
  fprintf(stderr, "xrt: mutex table full\n");
  _exit(2);
}

static void mutex_lock(Thread* t, const void* addr) {
  sb_drain_all(t);
  sched_point(t, 0);
  MutexRec* m = mutex_get(addr);
  while (m->owner != 0) {
    block_on(t, addr);
    t->state = T_RUNNABLE;
  }
  m->owner = t->id;
  vc_join(t->vc, m->vc);
}
static bool mutex_trylock(Thread* t, const void* addr) {
  sched_point(t, 0);
  MutexRec* m = mutex_get(addr);
  if (m->owner != 0)
    return false;
  m->owner = t->id;
  vc_join(t->vc, m->vc);
  return true;
}
static void mutex_unlock(Thread* t, const void* addr) {
  sb_drain_all(t);
  MutexRec* m = mutex_get(addr);
  m->owner = 0;
  m->vc = t->vc;
  t->vc.c[t->id]++;
  for (int i = 1; i < G.nthr; ++i)
    if (G.thr[i].state == T_BLOCKED && G.thr[i].blocked_on == addr)
      G.thr[i].state = T_RUNNABLE;
  sched_point(t, 1);
}

} // namespace xrt

// ================================================================================================ interposed symbols
using namespace xrt;

extern "C" {

typedef int (*mutex_fn)(pthread_mutex_t*);
static mutex_fn real_lock, real_unlock, real_trylock;
static void resolve_real() {
  if (!real_lock) {
    real_lock = (mutex_fn)dlsym(RTLD_NEXT, "pthread_mutex_lock");
    real_unlock = (mutex_fn)dlsym(RTLD_NEXT, "pthread_mutex_unlock");
    real_trylock = (mutex_fn)dlsym(RTLD_NEXT, "pthread_mutex_trylock");
  }
}

int pthread_mutex_lock(pthread_mutex_t* m) {
  Thread* t = self;
  if (managed(t)) {
    mutex_lock(t, m);
    return 0;
  }
  resolve_real();
  return real_lock(m);
}
int pthread_mutex_unlock(pthread_mutex_t* m) {
  Thread* t = self;
  if (managed(t)) {
    mutex_unlock(t, m);
    return 0;
  }
  resolve_real();
  return real_unlock(m);
}
int pthread_mutex_trylock(pthread_mutex_t* m) {
  Thread* t = self;
  if (managed(t))
    return mutex_trylock(t, m) ? 0 : EBUSY;
  resolve_real();
  return real_trylock(m);
}

int sched_yield(void) {
  Thread* t = self;
  if (managed(t)) {
    t->spin += SPIN_LIMIT;
    sched_point(t, 2);
    return 0;
  }
  return (int)syscall(SYS_sched_yield);
}

// function-local static guards (Itanium ABI): byte 0 = initialised, byte 1 = in progress
int __cxa_guard_acquire(uint64_t* g) {
  uint8_t* b = (uint8_t*)g;
  Thread* t = self;
  if (!managed(t)) {
    if (__atomic_load_n(&b[0], __ATOMIC_ACQUIRE))
      return 0;
    if (b[1]) {
      fprintf(stderr, "xrt: recursive/unmanaged contended static init\n");
      _exit(2);
    }
    b[1] = 1;
    return 1;
  }
  for (;;) {
    bool ok;
    uint64_t done = atomic_op(A_LOAD, (uintptr_t)&b[0], 1, 0, nullptr, &ok, 2, 2, __builtin_return_address(0));
    // force freshness: an initialised guard is never missed because we re-check real memory
    if (done || __atomic_load_n(&b[0], __ATOMIC_ACQUIRE)) {
      if (!done) {
        // stale read of the guard byte: synchronise through the mutex record of the guard instead
        MutexRec* m = mutex_get(g);
        vc_join(t->vc, m->vc);
      }
      return 0;
    }
    if (!b[1]) {
      b[1] = 1;
      return 1;
    }
    block_on(t, g);
    t->state = T_RUNNABLE;
  }
}
void __cxa_guard_release(uint64_t* g) {
  uint8_t* b = (uint8_t*)g;
  Thread* t = self;
  if (!managed(t)) {
    b[1] = 0;
    __atomic_store_n(&b[0], 1, __ATOMIC_RELEASE);
    return;
  }
  MutexRec* m = mutex_get(g);
  m->vc = t->vc;
  bool ok;
  atomic_op(A_STORE, (uintptr_t)&b[0], 1, 1, nullptr, &ok, 3, 3, __builtin_return_address(0));
  b[1] = 0;
  for (int i = 1; i < G.nthr; ++i)
    if (G.thr[i].state == T_BLOCKED && G.thr[i].blocked_on == g)
      G.thr[i].state = T_RUNNABLE;
}
void __cxa_guard_abort(uint64_t* g) {
  uint8_t* b = (uint8_t*)g;
  b[1] = 0;
  for (int i = 1; i < G.nthr; ++i)
    if (G.thr[i].state == T_BLOCKED && G.thr[i].blocked_on == g)
      G.thr[i].state = T_RUNNABLE;
}

// ---- TSan compiler ABI ----
void __tsan_init(void) { init_once(); }
void __tsan_func_entry(void* pc) {
  Thread* t = self;
  if (t) {
    if (t->sp < MAXSTACK)
      t->stack[t->sp] = pc;
    t->sp++;
  }
}
void __tsan_func_exit(void) {
  Thread* t = self;
  if (t && t->sp > 0)
    t->sp--;
}

#define PLAIN(N)                                                                                                      \
  void __tsan_read##N(void* p) { plain_access(p, N, false, __builtin_return_address(0)); }                            \
  void __tsan_write##N(void* p) { plain_access(p, N, true, __builtin_return_address(0)); }                            \
  void __tsan_unaligned_read##N(void* p) { plain_access(p, N, false, __builtin_return_address(0)); }                  \
  void __tsan_unaligned_write##N(void* p) { plain_access(p, N, true, __builtin_return_address(0)); }                  \
  void __tsan_volatile_read##N(void* p) { plain_access(p, N, false, __builtin_return_address(0)); }                   \
  void __tsan_volatile_write##N(void* p) { plain_access(p, N, true, __builtin_return_address(0)); }
PLAIN(1)
PLAIN(2)
PLAIN(4)
PLAIN(8)
PLAIN(16)
#undef PLAIN
void __tsan_read_range(void* p, unsigned long n) {
  if (n)
    plain_access(p, n, false, __builtin_return_address(0));
}
void __tsan_write_range(void* p, unsigned long n) {
  if (n)
    plain_access(p, n, true, __builtin_return_address(0));
}
void __tsan_vptr_update(void** vptr_p, void* new_val) {
  if (*vptr_p != new_val)
    plain_access(vptr_p, 8, true, __builtin_return_address(0));
}
void __tsan_vptr_read(void** vptr_p) { plain_access(vptr_p, 8, false, __builtin_return_address(0)); }

#define ATOMICS(N, T)                                                                                                 \
  T __tsan_atomic##N##_load(const volatile T* a, int mo) {                                                            \
    bool ok;                                                                                                          \
    return (T)atomic_op(A_LOAD, (uintptr_t)a, sizeof(T), 0, nullptr, &ok, mo, mo, __builtin_return_address(0));       \
  }                                                                                                                   \
  void __tsan_atomic##N##_store(volatile T* a, T v, int mo) {                                                         \
    bool ok;                                                                                                          \
    atomic_op(A_STORE, (uintptr_t)a, sizeof(T), v, nullptr, &ok, mo, mo, __builtin_return_address(0));                \
  }                                                                                                                   \
  T __tsan_atomic##N##_exchange(volatile T* a, T v, int mo) {                                                         \
    bool ok;                                                                                                          \
    return (T)atomic_op(A_XCHG, (uintptr_t)a, sizeof(T), v, nullptr, &ok, mo, mo, __builtin_return_address(0));       \
  }                                                                                                                   \
  T __tsan_atomic##N##_fetch_add(volatile T* a, T v, int mo) {                                                        \
    bool ok;                                                                                                          \
    return (T)atomic_op(A_ADD, (uintptr_t)a, sizeof(T), v, nullptr, &ok, mo, mo, __builtin_return_address(0));        \
  }                                                                                                                   \
  T __tsan_atomic##N##_fetch_sub(volatile T* a, T v, int mo) {                                                        \
    bool ok;                                                                                                          \
    return (T)atomic_op(A_SUB, (uintptr_t)a, sizeof(T), v, nullptr, &ok, mo, mo, __builtin_return_address(0));        \
  }                                                                                                                   \
  T __tsan_atomic##N##_fetch_and(volatile T* a, T v, int mo) {                                                        \
    bool ok;                                                                                                          \
    return (T)atomic_op(A_AND, (uintptr_t)a, sizeof(T), v, nullptr, &ok, mo, mo, __builtin_return_address(0));        \
  }                                                                                                                   \
  T __tsan_atomic##N##_fetch_or(volatile T* a, T v, int mo) {                                                         \
    bool ok;                                                                                                          \
    return (T)atomic_op(A_OR, (uintptr_t)a, sizeof(T), v, nullptr, &ok, mo, mo, __builtin_return_address(0));         \
  }                                                                                                                   \
  T __tsan_atomic##N##_fetch_xor(volatile T* a, T v, int mo) {                                                        \
    bool ok;                                                                                                          \
    return (T)atomic_op(A_XOR, (uintptr_t)a, sizeof(T), v, nullptr, &ok, mo, mo, __builtin_return_address(0));        \
  }                                                                                                                   \
  T __tsan_atomic##N##_fetch_nand(volatile T* a, T v, int mo) {                                                       \
    bool ok;                                                                                                          \
    return (T)atomic_op(A_NAND, (uintptr_t)a, sizeof(T), v, nullptr, &ok, mo, mo, __builtin_return_address(0));       \
  }                                                                                                                   \
  int __tsan_atomic##N##_compare_exchange_strong(volatile T* a, T* c, T v, int mo, int fmo) {                         \
    bool ok = false;                                                                                                  \
    uint64_t e = *c;                                                                                                  \
    atomic_op(A_CAS_S, (uintptr_t)a, sizeof(T), v, &e, &ok, mo, fmo, __builtin_return_address(0));                    \
    *c = (T)e;                                                                                                        \
    return ok;                                                                                                        \
  }                                                                                                                   \
  int __tsan_atomic##N##_compare_exchange_weak(volatile T* a, T* c, T v, int mo, int fmo) {                           \
    bool ok = false;                                                                                                  \
    uint64_t e = *c;                                                                                                  \
    atomic_op(A_CAS_W, (uintptr_t)a, sizeof(T), v, &e, &ok, mo, fmo, __builtin_return_address(0));                    \
    *c = (T)e;                                                                                                        \
    return ok;                                                                                                        \
  }                                                                                                                   \
  T __tsan_atomic##N##_compare_exchange_val(volatile T* a, T c, T v, int mo, int fmo) {                               \
    bool ok = false;                                                                                                  \
    uint64_t e = c;                                                                                                   \
    atomic_op(A_CAS_S, (uintptr_t)a, sizeof(T), v, &e, &ok, mo, fmo, __builtin_return_address(0));                    \
    return (T)e;                                                                                                      \
  }
ATOMICS(8, uint8_t)
ATOMICS(16, uint16_t)
ATOMICS(32, uint32_t)
ATOMICS(64, uint64_t)
#undef ATOMICS

void __tsan_atomic_thread_fence(int mo) { fence_op(mo); }
void __tsan_atomic_signal_fence(int) {}

} // extern "C"

// ================================================================================================ exception objects
// libstdc++ takes exception objects from malloc and recycles them across threads; the (instrumented) constructor of the
// next exception at the same address must not be reported as racing with the previous thread's accesses.
extern "C" void* __cxa_allocate_exception(size_t thrown_size) noexcept {
  typedef void* (*fn_t)(size_t);
  static fn_t real = (fn_t)dlsym(RTLD_NEXT, "__cxa_allocate_exception");
  void* p = real(thrown_size);
  if (p && G.cells)
    for (uintptr_t w = (uintptr_t)p & ~(uintptr_t)7; w < (uintptr_t)p + thrown_size; w += 8) {
      Cell* c = cell_get(w, false);
      if (c) {
        memset(c->clk, 0, sizeof c->clk);
        memset(c->mask, 0, sizeof c->mask);
        c->has_atomic = 0;
      }
    }
  return p;
}

// ================================================================================================ operator new/delete
void* operator new(size_t n) { return heap_alloc(n, 16); }
void* operator new[](size_t n) { return heap_alloc(n, 16); }
void* operator new(size_t n, const std::nothrow_t&) noexcept { return heap_alloc(n, 16); }
void* operator new[](size_t n, const std::nothrow_t&) noexcept { return heap_alloc(n, 16); }
void* operator new(size_t n, std::align_val_t a) { return heap_alloc(n, (size_t)a); }
void* operator new[](size_t n, std::align_val_t a) { return heap_alloc(n, (size_t)a); }
void* operator new(size_t n, std::align_val_t a, const std::nothrow_t&) noexcept { return heap_alloc(n, (size_t)a); }
void* operator new[](size_t n, std::align_val_t a, const std::nothrow_t&) noexcept { return heap_alloc(n, (size_t)a); }
void operator delete(void* p) noexcept { heap_free(p); }
void operator delete[](void* p) noexcept { heap_free(p); }
void operator delete(void* p, size_t) noexcept { heap_free(p); }
void operator delete[](void* p, size_t) noexcept { heap_free(p); }
void operator delete(void* p, std::align_val_t) noexcept { heap_free(p); }
void operator delete[](void* p, std::align_val_t) noexcept { heap_free(p); }
void operator delete(void* p, size_t, std::align_val_t) noexcept { heap_free(p); }
void operator delete[](void* p, size_t, std::align_val_t) noexcept { heap_free(p); }
void operator delete(void* p, const std::nothrow_t&) noexcept { heap_free(p); }
void operator delete[](void* p, const std::nothrow_t&) noexcept { heap_free(p); }
void operator delete(void* p, std::align_val_t, const std::nothrow_t&) noexcept { heap_free(p); }
void operator delete[](void* p, std::align_val_t, const std::nothrow_t&) noexcept { heap_free(p); }
