// Scenario "leftright": C13 — left_right readers always see one consistent, fully updated instance.
#include "harness.h"

#include <xenium/left_right.hpp>

using namespace hz;

namespace {
enum LKind : uint8_t { L_UPDATE = 1, L_READ = 2 };

struct Data {
  int64_t v = 0;
  int64_t shadow = 1; // invariant: shadow == v * 3 + 1 (written in a second step)
  int64_t applied = 0; // number of updates applied to this instance
};

// Heap-owning instance type (config "heap2"): the state lives in a separately allocated array that every update replaces, so a read
// functor running on an instance under modification touches freed memory (heap shadow / ASan) besides tripping the monitor.
struct HeapData {
  std::vector<int64_t> cells; // cells = {v, v * 3 + 1, applied}; re-allocated by every update
  HeapData() : cells{0, 1, 0} {}
};
inline int64_t get_v(const Data& d) { return d.v; }
inline int64_t get_shadow(const Data& d) { return d.shadow; }
inline void set_v(Data& d, int64_t id) { d.v = id; }
inline void set_shadow(Data& d, int64_t id) {
  d.shadow = id * 3 + 1;
  d.applied++;
}
inline int64_t get_v(const HeapData& d) { return d.cells[0]; }
inline int64_t get_shadow(const HeapData& d) { return d.cells[1]; }
inline void set_v(HeapData& d, int64_t id) {
  std::vector<int64_t> fresh(d.cells.begin(), d.cells.end()); // new block; the old one is freed below
  fresh[0] = id;
  d.cells.swap(fresh);
}
inline void set_shadow(HeapData& d, int64_t id) {
  d.cells[1] = id * 3 + 1;
  d.cells[2]++;
  if (id % 3 == 0)
    d.cells.resize(3 + (size_t)(id % 7)); // growth / shrink: another re-allocation from time to time
}

struct Monitor {
  struct Inst {
    const void* addr = nullptr;
    int readers = 0;
    int writer = 0;
    std::vector<int64_t> updates;
  };
  Inst inst[2];
  std::string err_kind, err_msg;
  uint64_t reads_between_switch_and_second_apply = 0;
  int64_t in_update = 0; // id of the update currently between its two functor calls (0 none)
  void reset() { *this = Monitor(); }
  void err(const char* k, const std::string& m) {
    if (err_kind.empty()) {
      err_kind = k;
      err_msg = m;
    }
  }
  Inst& get(const void* a) {
    for (auto& i : inst)
      if (i.addr == a)
        return i;
    for (auto& i : inst)
      if (!i.addr) {
        i.addr = a;
        return i;
      }
    err("more-than-two-instances", fmt("functor ran on a third instance %p", a));
    return inst[0];
  }
  void read_enter(const void* a) {
    xrt::Quiet q;
    Inst& i = get(a);
    if (i.writer)
      err("read-on-instance-being-updated", fmt("read functor of T%d started on instance %p while an update functor is modifying it", xrt::tid(), a));
    i.readers++;
    if (in_update)
      reads_between_switch_and_second_apply++;
  }
  void read_exit(const void* a) {
    xrt::Quiet q;
    get(a).readers--;
  }
  void write_enter(const void* a, int64_t id) {
    xrt::Quiet q;
    Inst& i = get(a);
    if (i.readers)
      err("update-on-instance-being-read", fmt("update %" PRId64 " started on instance %p while %d read functor(s) are running on it", id, a, i.readers));
    if (i.writer)
      err("two-writers", fmt("update %" PRId64 " started on instance %p while another update functor is running on it", id, a));
    i.writer++;
    i.updates.push_back(id);
    in_update = in_update == id ? 0 : id;
  }
  void write_exit(const void* a) {
    xrt::Quiet q;
    get(a).writer--;
  }
};
Monitor* g_mon;
std::atomic<int>* g_tick; // an atomic touched inside functors: gives the scheduler a preemption point there

struct RegModel {
  using State = int64_t;
  static void serialize(const State& s, std::string& out) { out.append(reinterpret_cast<const char*>(&s), sizeof s); }
  bool apply(State& s, const OpRec& op) const {
    if (op.kind == L_UPDATE) {
      s = op.a;
      return true;
    }
    return s == op.r2;
  }
};

std::string op_str(const OpRec& o) {
  std::string s = fmt("T%d ", o.thread);
  s += o.kind == L_UPDATE ? fmt("update(set %" PRId64 ")", o.a) : fmt("read()->%" PRId64, o.r2);
  s += fmt(" [%" PRIu64 ",%" PRIu64 "]", o.call, o.ret);
  return s;
}

struct POp {
  uint8_t kind;
  int64_t id;
};
template <class D>
struct Worker {
  xenium::left_right<D>* lr;
  std::vector<POp> prog;
  std::vector<OpRec> recs;
  bool weak;
  int tid;
};

template <class Data>
void do_op(xenium::left_right<Data>* lr, const POp& op, OpRec& o, bool weak, int tid) {
  Recorder rec{weak};
  o.thread = (uint8_t)tid;
  o.kind = op.kind;
  o.a = op.id;
  if (op.kind == L_UPDATE) {
    int64_t id = op.id;
    rec.begin(o);
    xrt::op_begin(L_UPDATE, false);
    lr->update([id](Data& d) {
      g_mon->write_enter(&d, id);
      set_v(d, id);
      g_tick->fetch_add(1, std::memory_order_relaxed);
      set_shadow(d, id);
      g_mon->write_exit(&d);
    });
    xrt::op_end();
    rec.end(o);
  } else if (op.id == 1) {
    // read functor that returns (a reference to) the instance: read() must hand out a copy taken while the read guard is held
    rec.begin(o);
    xrt::op_begin(L_READ, true);
    Data snap = lr->read([](const Data& d) -> const Data& {
      g_mon->read_enter(&d);
      g_tick->fetch_add(1, std::memory_order_relaxed);
      g_mon->read_exit(&d);
      return d;
    });
    xrt::op_end();
    rec.end(o);
    o.a = 0;
    o.r2 = get_v(snap);
    if (get_shadow(snap) != get_v(snap) * 3 + 1) {
      xrt::Quiet q;
      g_mon->err("mixed-state", fmt("value returned by read() of T%d is a mixture of two states (v=%" PRId64 ", shadow=%" PRId64 ")", tid, get_v(snap), get_shadow(snap)));
    }
  } else {
    int64_t bad = 0;
    rec.begin(o);
    xrt::op_begin(L_READ, true);
    int64_t v = lr->read([&bad](const Data& d) {
      g_mon->read_enter(&d);
      int64_t a = get_v(d);
      g_tick->fetch_add(1, std::memory_order_relaxed);
      int64_t b = get_shadow(d);
      if (b != a * 3 + 1)
        bad = 1;
      g_mon->read_exit(&d);
      return a;
    });
    xrt::op_end();
    rec.end(o);
    o.r2 = v;
    if (bad) {
      xrt::Quiet q;
      g_mon->err("mixed-state", fmt("read of T%d saw v=%" PRId64 " with a shadow field of another update (half applied update)", tid, v));
    }
  }
}

template <class D>
void worker_body(void* p) {
  auto* w = (Worker<D>*)p;
  for (size_t i = 0; i < w->prog.size(); ++i)
    do_op(w->lr, w->prog[i], w->recs[i], w->weak, w->tid);
}

// CTOR: 0 = left_right(T source), 1 = left_right(T left, T right), 2 = left_right()
template <class Data, int CTOR>
void run_lr(const ExecCtx& ctx, ExecOut& out) {
  Rng rng(ctx.seed);
  static Monitor mon;
  mon.reset();
  g_mon = &mon;
  xenium::left_right<Data>* lr;
  {
    xrt::quiet_end();
    if (CTOR == 0)
      lr = new xenium::left_right<Data>(Data{});
    else if (CTOR == 1)
      lr = new xenium::left_right<Data>(Data{}, Data{});
    else
      lr = new xenium::left_right<Data>();
    g_tick = new std::atomic<int>(0);
    xrt::quiet_begin();
  }
  int nwriters = rng.range(1, 2), nreaders = rng.range(1, 3);
  int n = nwriters + nreaders;
  std::vector<Worker<Data>> workers((size_t)n);
  int64_t next_id = 1;
  for (int t = 0; t < n; ++t) {
    auto& w = workers[(size_t)t];
    int nops = rng.range(1, 5);
    for (int i = 0; i < nops; ++i) {
      bool upd = t < nwriters && rng.chance(3, 4);
      w.prog.push_back(POp{(uint8_t)(upd ? L_UPDATE : L_READ), upd ? next_id++ : (rng.chance(1, 3) ? 1 : 0)});
    }
  }
  std::vector<xrt::ThreadSpec> specs((size_t)n);
  for (int t = 0; t < n; ++t) {
    auto& w = workers[(size_t)t];
    w.lr = lr;
    w.weak = ctx.weak;
    w.tid = t + 1;
    w.recs.resize(w.prog.size());
    specs[(size_t)t].fn = worker_body<Data>;
    specs[(size_t)t].arg = &w;
    if (rng.chance(1, 4))
      specs[(size_t)t].start_delay = rng.below(60);
  }
  xrt::run(ctx.runcfg(), specs.data(), n);
  History h;
  h.weak = ctx.weak;
  for (auto& w : workers)
    for (auto& o : w.recs)
      h.ops.push_back(o);
  {
    OpRec o;
    xrt::quiet_end();
    do_op(lr, POp{L_READ, 0}, o, ctx.weak, 0);
    delete lr;
    delete g_tick;
    xrt::quiet_begin();
    h.ops.push_back(o);
  }
  compute_overlaps(h);
  out.hist_hash = history_hash(h);
  out.nontrivial = history_nontrivial(h);
  out.history = history_str(h, op_str);
  counters().add("ops", h.ops.size());
  counters().add("reads_between_switch_and_second_apply", mon.reads_between_switch_and_second_apply);
  if (!mon.err_kind.empty()) { // the functor monitor is the more specific witness (a race report usually follows it)
    out.fail("C13", mon.err_kind.c_str(), mon.err_msg);
    return;
  }
  if (xrt::has_violation())
    return;
  // every update applied exactly once to each of the two instances, in the same order
  if (mon.inst[0].updates != mon.inst[1].updates) {
    std::string a, b;
    for (auto u : mon.inst[0].updates)
      a += fmt("%" PRId64 " ", u);
    for (auto u : mon.inst[1].updates)
      b += fmt("%" PRId64 " ", u);
    if (!(mon.inst[1].addr == nullptr && mon.inst[0].updates.empty()))
      out.fail("C13", "instances-diverge", "updates applied to the two instances differ: [" + a + "] vs [" + b + "]");
  }
  {
    std::vector<int64_t> sorted = mon.inst[0].updates;
    std::sort(sorted.begin(), sorted.end());
    for (size_t i = 0; i < sorted.size(); ++i)
      if (sorted[i] != (int64_t)i + 1 && !out.violation)
        out.fail("C13", "update-not-applied-exactly-once", fmt("update ids applied to an instance are not exactly 1..%" PRId64, next_id - 1));
    if ((int64_t)sorted.size() != next_id - 1 && !out.violation) {
      int64_t executed = 0;
      for (auto& o : h.ops)
        if (o.kind == L_UPDATE)
          ++executed;
      if ((int64_t)sorted.size() != executed)
        out.fail("C13", "update-not-applied-exactly-once", fmt("%zu functor applications for %" PRId64 " updates", sorted.size(), executed));
    }
  }
  if (out.violation)
    return;
  RegModel model;
  WglResult wr = wgl_check(h, model, (int64_t)0);
  counters().add("wgl_nodes", wr.nodes);
  if (wr.verdict == V_INCONCLUSIVE) {
    out.inconclusive = true;
  } else if (wr.verdict == V_VIOLATION) {
    std::string pre;
    for (int i : wr.best_prefix)
      pre += op_str(h.ops[(size_t)i]) + "; ";
    out.fail("C13", "not-linearizable", "reads are not linearizable with the updates; longest legal prefix: " + pre);
  }
}
} // namespace

int main(int argc, char** argv) {
  xrt::quiet_begin();
  ScenarioDef def;
  def.name = "leftright";
  def.configs = {"data3", "data3_lr", "heap2", "heap2_def"};
  def.run = [](const std::string& cfg, const ExecCtx& ctx, ExecOut& out) {
    if (cfg == "data3")
      run_lr<Data, 0>(ctx, out);
    else if (cfg == "data3_lr")
      run_lr<Data, 1>(ctx, out);
    else if (cfg == "heap2")
      run_lr<HeapData, 0>(ctx, out);
    else
      run_lr<HeapData, 2>(ctx, out);
  };
  return scenario_main(argc, argv, def);
}
