// Common scenario harness: CLI, PRNG, histories, WGL linearizability checker, result emission.
// Everything here is compiled into the (instrumented) scenario TU; code that touches monitor state shared between
// managed threads runs inside xrt::Quiet sections.
#pragma once
#include "../xrt/xrt.h"

#include <algorithm>
#include <cinttypes>
#include <cstdarg>
#include <cstdio>
#include <cstdlib>
#include <cstring>
#include <functional>
#include <map>
#include <string>
#include <unordered_map>
#include <unordered_set>
#include <vector>

namespace hz {

// ------------------------------------------------------------------------------------------------ PRNG
struct Rng {
  uint64_t s;
  explicit Rng(uint64_t seed) : s(seed * 0x9e3779b97f4a7c15ull + 0x7f4a7c15ull) { next(); }
  uint64_t next() {
    uint64_t z = (s += 0x9e3779b97f4a7c15ull);
    z = (z ^ (z >> 30)) * 0xbf58476d1ce4e5b9ull;
    z = (z ^ (z >> 27)) * 0x94d049bb133111ebull;
    return z ^ (z >> 31);
  }
  uint32_t below(uint32_t n) { return n ? (uint32_t)(next() % n) : 0; }
  int range(int lo, int hi) { return lo + (int)below((uint32_t)(hi - lo + 1)); } // inclusive
  bool chance(uint32_t num, uint32_t den) { return below(den) < num; }
  template <class T>
  const T& pick(const std::vector<T>& v) {
    return v[below((uint32_t)v.size())];
  }
};
inline uint64_t mix64(uint64_t a, uint64_t b) {
  uint64_t x = a ^ (b + 0x9e3779b97f4a7c15ull + (a << 6) + (a >> 2));
  x ^= x >> 33;
  x *= 0xff51afd7ed558ccdull;
  x ^= x >> 33;
  x *= 0xc4ceb9fe1a85ec53ull;
  x ^= x >> 33;
  return x;
}
inline uint64_t hash_str(const char* s) {
  uint64_t h = 1469598103934665603ull;
  for (; *s; ++s)
    h = (h ^ (unsigned char)*s) * 1099511628211ull;
  return h;
}

inline std::string fmt(const char* f, ...) __attribute__((format(printf, 1, 2)));
inline std::string fmt(const char* f, ...) {
  char buf[4096];
  va_list ap;
  va_start(ap, f);
  vsnprintf(buf, sizeof buf, f, ap);
  va_end(ap);
  return buf;
}

// ------------------------------------------------------------------------------------------------ histories
struct OpRec {
  uint8_t thread = 0; // 0 = main (sequential prefix/suffix), 1.. = workers
  uint8_t kind = 0;
  int64_t a = 0, b = 0;   // arguments
  int64_t r = 0, r2 = 0;  // results
  uint64_t call = 0, ret = 0;
  xrt::VC cvc{}, rvc{};
  bool done = false;
  bool overlap = false;   // overlaps (is concurrent with) some other operation
  uint16_t n_overlap = 0; // number of operations concurrent with this one
  uint16_t n_overlap_same = 0; // ... of the same kind
  bool phase_main_after = false;
};

struct History {
  std::vector<OpRec> ops;
  bool weak = false;
};

inline bool precedes(const OpRec& x, const OpRec& y, bool weak) {
  if (&x == &y)
    return false;
  if (x.thread == y.thread)
    return x.call < y.call;
  if (!weak)
    return x.ret < y.call;
  // happens-before: y's call clock has seen a release of x's thread that came after x returned
  return y.cvc.c[x.thread] > x.rvc.c[x.thread];
}

inline void compute_overlaps(History& h) {
  size_t n = h.ops.size();
  for (size_t i = 0; i < n; ++i) {
    h.ops[i].n_overlap = 0;
    h.ops[i].n_overlap_same = 0;
    for (size_t j = 0; j < n; ++j) {
      if (i == j)
        continue;
      if (!precedes(h.ops[i], h.ops[j], h.weak) && !precedes(h.ops[j], h.ops[i], h.weak)) {
        h.ops[i].n_overlap++;
        if (h.ops[i].kind == h.ops[j].kind)
          h.ops[i].n_overlap_same++;
      }
    }
    h.ops[i].overlap = h.ops[i].n_overlap > 0;
  }
}

// Recorder used by worker threads: each thread owns a disjoint, pre-sized slice, main reads after join.
struct Recorder {
  bool weak;
  void begin(OpRec& o) const {
    if (weak)
      xrt::clock(&o.cvc);
    o.call = xrt::stamp();
  }
  void end(OpRec& o) const {
    o.ret = xrt::stamp();
    if (weak)
      xrt::clock(&o.rvc);
    o.done = true;
  }
};

// generic helpers for printing / hashing histories
template <class F>
std::string history_str(const History& h, F op_str) {
  std::vector<const OpRec*> v;
  for (auto& o : h.ops)
    v.push_back(&o);
  std::sort(v.begin(), v.end(), [](const OpRec* x, const OpRec* y) { return x->call < y->call; });
  std::string s;
  for (auto* o : v) {
    s += op_str(*o);
    s += "\n";
  }
  return s;
}

inline uint64_t history_hash(const History& h) {
  // order of call/return events + arguments + results
  struct Ev {
    uint64_t t;
    uint64_t v;
  };
  std::vector<Ev> ev;
  for (auto& o : h.ops) {
    uint64_t base = mix64(mix64(o.thread, o.kind), mix64((uint64_t)o.a, (uint64_t)o.b));
    ev.push_back({o.call, mix64(base, 1)});
    ev.push_back({o.ret, mix64(mix64(base, 2), mix64((uint64_t)o.r, (uint64_t)o.r2))});
  }
  std::sort(ev.begin(), ev.end(), [](const Ev& a, const Ev& b) { return a.t < b.t; });
  uint64_t hsh = 0x1234;
  for (auto& e : ev)
    hsh = mix64(hsh, e.v);
  return hsh;
}

inline bool history_nontrivial(const History& h) {
  for (auto& o : h.ops)
    if (o.thread != 0 && o.overlap)
      return true;
  return false;
}


// ------------------------------------------------------------------------------------------------ WGL checker
enum Verdict { V_OK = 0, V_VIOLATION = 1, V_INCONCLUSIVE = 2 };
struct WglResult {
  Verdict verdict;
  uint64_t nodes;
  std::vector<int> best_prefix; // longest linearization prefix found (indices into ops)
};

// Model: struct with `using State = ...` (copyable), `bool apply(State&, const OpRec&) const` and
// `static void serialize(const State&, std::string& append_to)` (injective).
template <class Model>
WglResult wgl_check(const History& h, const Model& model, const typename Model::State& init, uint64_t budget = 300000) {
  using State = typename Model::State;
  const auto& ops = h.ops;
  const int n = (int)ops.size();
  WglResult res{V_OK, 0, {}};
  if (n == 0)
    return res;
  if (n > 64) {
    res.verdict = V_INCONCLUSIVE;
    return res;
  }
  // candidate order: by invocation time (the real linearization order is usually close to it)
  std::vector<int> order(n);
  for (int i = 0; i < n; ++i)
    order[i] = i;
  std::sort(order.begin(), order.end(), [&](int x, int y) { return ops[x].call < ops[y].call; });
  std::vector<uint64_t> pred(n, 0);
  for (int i = 0; i < n; ++i)
    for (int j = 0; j < n; ++j)
      if (i != j && precedes(ops[j], ops[i], h.weak))
        pred[i] |= 1ull << j;
  const uint64_t full = n == 64 ? ~0ull : ((1ull << n) - 1);
  // memo on (set of linearized operations, full model state): exact keys, no hash-collision pruning
  std::unordered_set<std::string> memo;
  struct Frame {
    uint64_t done;
    State st;
    int next; // position in `order`
  };
  std::vector<Frame> stack;
  std::vector<int> path;
  stack.push_back({0, init, 0});
  std::string key;
  while (!stack.empty()) {
    Frame& f = stack.back();
    if (f.done == full)
      return res;
    bool descended = false;
    for (int pos = f.next; pos < n; ++pos) {
      const int i = order[pos];
      if ((f.done >> i) & 1)
        continue;
      if ((pred[i] & ~f.done) != 0)
        continue;
      State s2 = f.st;
      if (!model.apply(s2, ops[i]))
        continue;
      uint64_t d2 = f.done | (1ull << i);
      key.assign(reinterpret_cast<const char*>(&d2), sizeof d2);
      Model::serialize(s2, key);
      if (!memo.insert(key).second)
        continue;
      if (++res.nodes > budget) {
        res.verdict = V_INCONCLUSIVE;
        return res;
      }
      f.next = pos + 1;
      path.push_back(i);
      if (path.size() > res.best_prefix.size())
        res.best_prefix = path;
      stack.push_back({d2, std::move(s2), 0});
      descended = true;
      break;
    }
    if (!descended) {
      stack.pop_back();
      if (!path.empty())
        path.pop_back();
    }
  }
  res.verdict = V_VIOLATION;
  return res;
}

// ------------------------------------------------------------------------------------------------ CLI and result emission
struct Args {
  std::string cfg = "all";
  bool weak = false;
  bool tso = false;
  uint64_t seed = 1;
  uint64_t execs = 100;
  uint64_t from = 0;
  int64_t only = -1; // replay: print the history of this execution
  uint32_t window = 16;
  bool freeze = false;
  bool verbose = false;
  bool list = false;
  std::string hashes_out;
  int max_viol = 3;
  int strategy = -1;
};

inline Args parse_args(int argc, char** argv) {
  Args a;
  for (int i = 1; i < argc; ++i) {
    std::string k = argv[i];
    auto val = [&]() -> const char* {
      if (i + 1 >= argc) {
        fprintf(stderr, "missing value for %s\n", k.c_str());
        exit(2);
      }
      return argv[++i];
    };
    if (k == "--cfg")
      a.cfg = val();
    else if (k == "--mode") {
      std::string m = val();
      a.weak = m == "weak" || m == "tso"; // both use happens-before precedence in the oracles
      a.tso = m == "tso";
    }
    else if (k == "--seed")
      a.seed = strtoull(val(), nullptr, 10);
    else if (k == "--execs")
      a.execs = strtoull(val(), nullptr, 10);
    else if (k == "--from")
      a.from = strtoull(val(), nullptr, 10);
    else if (k == "--only")
      a.only = strtoll(val(), nullptr, 10);
    else if (k == "--window")
      a.window = (uint32_t)strtoul(val(), nullptr, 10);
    else if (k == "--freeze")
      a.freeze = true;
    else if (k == "--verbose")
      a.verbose = true;
    else if (k == "--list")
      a.list = true;
    else if (k == "--hashes-out")
      a.hashes_out = val();
    else if (k == "--max-viol")
      a.max_viol = atoi(val());
    else if (k == "--strategy")
      a.strategy = atoi(val());
    else {
      fprintf(stderr, "unknown argument %s\n", k.c_str());
      exit(2);
    }
  }
  return a;
}

struct ExecCtx {
  uint64_t seed;
  bool weak; // oracle flavour: happens-before precedence (weak and tso modes)
  uint32_t window;
  bool freeze;
  bool verbose;
  int strategy;
  bool tso = false; // engine flavour: x86-TSO store buffers instead of view-based stale reads
  uint64_t exec = 0; // index of this execution within the run of its configuration
  xrt::RunCfg runcfg(uint64_t salt = 0) const {
    xrt::RunCfg c;
    c.seed = mix64(seed, salt);
    c.weak = weak && !tso;
    c.tso = tso;
    c.window = window;
    c.freeze = freeze;
    c.strategy = strategy;
    return c;
  }
};

struct ExecOut {
  bool violation = false;
  bool inconclusive = false;
  std::string prop;    // primary property of the oracle that fired
  std::string kind;    // oracle kind (part of the violation key)
  std::string msg;
  std::string history; // printable
  uint64_t hist_hash = 0;
  bool nontrivial = false;
  void fail(const char* p, const char* k, const std::string& m) {
    if (violation)
      return;
    violation = true;
    prop = p;
    kind = k;
    msg = m;
  }
};

// counters reported in the summary (name -> value), filled by scenarios
struct Counters {
  std::map<std::string, uint64_t> c;
  void add(const char* k, uint64_t v = 1) { c[k] += v; }
  void max(const char* k, uint64_t v) {
    if (c[k] < v)
      c[k] = v;
  }
};
inline Counters& counters() {
  static Counters* c = new Counters();
  return *c;
}

inline std::string json_escape(const std::string& s) {
  std::string o;
  for (char ch : s) {
    if (ch == '"' || ch == '\\') {
      o += '\\';
      o += ch;
    } else if (ch == '\n')
      o += "\\n";
    else if ((unsigned char)ch < 0x20)
      o += ' ';
    else
      o += ch;
  }
  return o;
}

// map xrt violation kinds to the property whose oracle they implement
inline const char* xrt_kind_property(const char* kind, bool weak) {
  if (!strcmp(kind, "race") || !strcmp(kind, "race-free") || !strcmp(kind, "race-free-vs-atomic"))
    return "C03";
  if (!strcmp(kind, "use-after-free") || !strcmp(kind, "wild-access"))
    return weak ? "C03" : "C01";
  if (!strcmp(kind, "double-free") || !strcmp(kind, "bad-free"))
    return "C02";
  if (!strcmp(kind, "solo-bound") || !strcmp(kind, "solo-blocked"))
    return "C16";
  return "";
}

struct ScenarioDef {
  const char* name;
  std::vector<std::string> configs;
  // runs one execution of configuration `cfg`
  std::function<void(const std::string& cfg, const ExecCtx&, ExecOut&)> run;
};

inline int scenario_main(int argc, char** argv, const ScenarioDef& def) {
  Args args = parse_args(argc, argv);
  if (args.list) {
    for (auto& c : def.configs)
      printf("%s\n", c.c_str());
    return 0;
  }
  setvbuf(stdout, nullptr, _IOLBF, 0);
  xrt::install_crash_handlers();
  std::vector<std::string> cfgs;
  if (args.cfg == "all")
    cfgs = def.configs;
  else {
    size_t p = 0;
    while (p <= args.cfg.size()) {
      size_t q = args.cfg.find(',', p);
      if (q == std::string::npos)
        q = args.cfg.size();
      std::string c = args.cfg.substr(p, q - p);
      if (!c.empty()) {
        if (std::find(def.configs.begin(), def.configs.end(), c) == def.configs.end()) {
          fprintf(stderr, "unknown config %s\n", c.c_str());
          return 2;
        }
        cfgs.push_back(c);
      }
      p = q + 1;
    }
  }
  int total_viol = 0;
  for (auto& cfg : cfgs) {
    std::unordered_set<uint64_t> hashes, nontrivial;
    uint64_t execs = 0, inconclusive = 0;
    int nviol = 0;
    std::vector<std::string> samples;
    uint64_t cfg_salt = hash_str(cfg.c_str()) ^ hash_str(def.name);
    const xrt::Stats before = xrt::stats();
    counters().c.clear();
    for (uint64_t i = args.from; i < args.from + args.execs; ++i) {
      ExecCtx ctx{mix64(mix64(args.seed, cfg_salt), i), args.weak, args.window, args.freeze, args.verbose, args.strategy, args.tso};
      ctx.exec = i;
      xrt::set_context(def.name, cfg.c_str(), args.seed, i);
      xrt::clear_violation();
      ExecOut out;
      if (args.verbose && args.only >= 0 && (uint64_t)args.only == i) {
        fprintf(stderr, "TRACE ==== %s/%s exec %" PRIu64 "\n", def.name, cfg.c_str(), i);
        xrt::set_trace(true);
      }
      def.run(cfg, ctx, out);
      xrt::set_trace(false);
      if (xrt::has_violation() && !out.violation) {
        const char* p = xrt_kind_property(xrt::violation_kind(), args.weak);
        out.fail(p, xrt::violation_kind(), xrt::violation_msg());
      }
      xrt::clear_violation();
      ++execs;
      if (out.inconclusive)
        ++inconclusive;
      hashes.insert(out.hist_hash);
      if (out.nontrivial)
        nontrivial.insert(out.hist_hash);
      if (samples.size() < 3 && out.nontrivial && !out.history.empty() && (i % 7 == 0 || args.execs < 20))
        samples.push_back(out.history);
      if (args.only >= 0 && (uint64_t)args.only == i) {
        printf("---- replay of %s/%s seed=%" PRIu64 " exec=%" PRIu64 " mode=%s\n%s\n", def.name, cfg.c_str(), args.seed, i,
               (args.tso ? "tso" : args.weak ? "weak" : "sc"), out.history.c_str());
        if (out.violation)
          printf("violation: %s/%s: %s\n", out.prop.c_str(), out.kind.c_str(), out.msg.c_str());
        else
          printf("no violation in this execution\n");
      }
      if (out.violation) {
        ++nviol;
        ++total_viol;
        printf("{\"violation\":true,\"scenario\":\"%s\",\"config\":\"%s\",\"mode\":\"%s\",\"prop\":\"%s\",\"kind\":\"%s\","
               "\"seed\":%" PRIu64 ",\"from\":%" PRIu64 ",\"exec\":%" PRIu64 ",\"window\":%u,\"freeze\":%s,\"msg\":\"%s\","
               "\"history\":\"%s\"}\n",
               def.name, cfg.c_str(), (args.tso ? "tso" : args.weak ? "weak" : "sc"), out.prop.c_str(), out.kind.c_str(), args.seed, args.from,
               i, args.window, args.freeze ? "true" : "false", json_escape(out.msg).c_str(),
               json_escape(out.history).c_str());
        if (nviol >= args.max_viol)
          break;
      }
    }
    const xrt::Stats& st = xrt::stats();
    for (int k = 0; k < 128; ++k) {
      uint32_t n = st.solo_count_by_kind[k] - before.solo_count_by_kind[k];
      if (n) {
        counters().add(fmt("solo_kind%d_episodes", k).c_str(), n);
        counters().add(fmt("solo_kind%d_others_midop", k).c_str(), st.solo_midop_by_kind[k] - before.solo_midop_by_kind[k]);
        counters().max(fmt("max_solo_kind%d_steps", k).c_str(), st.solo_max_by_kind[k]);
      }
    }
    std::string cj;
    for (auto& kv : counters().c)
      cj += fmt("%s\"%s\":%" PRIu64, cj.empty() ? "" : ",", kv.first.c_str(), kv.second);
    std::string sj;
    for (auto& s : samples) {
      if (!sj.empty())
        sj += ",";
      sj += "\"" + json_escape(s.size() > 6000 ? s.substr(0, 6000) + "..." : s) + "\"";
    }
    printf("{\"summary\":true,\"scenario\":\"%s\",\"config\":\"%s\",\"mode\":\"%s\",\"seed\":%" PRIu64 ",\"execs\":%" PRIu64
           ",\"violations\":%d,\"inconclusive\":%" PRIu64 ",\"distinct\":%zu,\"distinct_nontrivial\":%zu,"
           "\"episodes\":%" PRIu64 ",\"steps\":%" PRIu64 ",\"switches\":%" PRIu64 ",\"stale_reads\":%" PRIu64
           ",\"stale_sites\":%" PRIu64 ",\"spurious_cas\":%" PRIu64 ",\"atomics\":%" PRIu64 ",\"plains\":%" PRIu64
           ",\"fences\":%" PRIu64 ",\"race_checks\":%" PRIu64 ",\"heap_checks\":%" PRIu64 ",\"drain_episodes\":%" PRIu64
           ",\"solo_episodes\":%" PRIu64 ",\"solo_max_steps\":%" PRIu64 ",\"loc_overflow\":%" PRIu64
           ",\"diag_atomic_races\":%" PRIu64
           ",\"strategies\":[%" PRIu64 ",%" PRIu64 ",%" PRIu64 ",%" PRIu64 "],\"counters\":{%s},\"samples\":[%s]}\n",
           def.name, cfg.c_str(), (args.tso ? "tso" : args.weak ? "weak" : "sc"), args.seed, execs, nviol, inconclusive, hashes.size(),
           nontrivial.size(), st.episodes - before.episodes, st.steps - before.steps, st.switches - before.switches,
           st.stale_reads - before.stale_reads, st.stale_sites, st.spurious_cas - before.spurious_cas,
           st.atomics - before.atomics, st.plains - before.plains, st.fences - before.fences,
           st.races_checked - before.races_checked, st.uaf_checks - before.uaf_checks,
           st.drain_episodes - before.drain_episodes, st.solo_episodes - before.solo_episodes, st.solo_max_steps,
           st.loc_overflow - before.loc_overflow, st.diag_atomic_races - before.diag_atomic_races,
           st.strategy_count[0] - before.strategy_count[0],
           st.strategy_count[1] - before.strategy_count[1], st.strategy_count[2] - before.strategy_count[2],
           st.strategy_count[3] - before.strategy_count[3], cj.c_str(), sj.c_str());
    if (!args.hashes_out.empty()) {
      FILE* f = fopen(args.hashes_out.c_str(), "a");
      if (f) {
        for (auto hsh : nontrivial)
          fprintf(f, "%016" PRIx64 "\n", hsh);
        fclose(f);
      }
    }
  }
  return total_viol ? 1 : 0;
}

} // namespace hz
