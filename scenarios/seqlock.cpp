// Scenario "seqlock": C14 — seqlock::load returns exactly some stored value (all sizeof(T) bytes), linearizable as a
// register with atomic store/update.
#include "harness.h"

#include <xenium/seqlock.hpp>

using namespace hz;

namespace {
enum SKind : uint8_t { S_STORE = 1, S_UPDATE = 2, S_LOAD = 3 };

template <size_t N, size_t Align>
struct Blob {
  alignas(Align) unsigned char b[N];
};

inline unsigned char pat(int64_t id, size_t i) {
  if (i < 4)
    return (unsigned char)(((uint32_t)id * 2654435761u) >> (8 * i));
  return (unsigned char)(id * 131 + (int64_t)i * 29 + (id >> 2) + 7);
}
template <class B>
void fill(B& b, int64_t id) {
  for (size_t i = 0; i < sizeof(b.b); ++i)
    b.b[i] = pat(id, i);
}
// decode: which known id produced these bytes? -1 if none (torn / truncated / invented)
template <class B>
int64_t decode(const B& b, int64_t max_id, std::string* why) {
  for (int64_t id = 0; id <= max_id; ++id) {
    bool head = true;
    for (size_t i = 0; i < 4; ++i)
      if (b.b[i] != pat(id, i))
        head = false;
    if (!head)
      continue;
    for (size_t i = 4; i < sizeof(b.b); ++i)
      if (b.b[i] != pat(id, i)) {
        *why = fmt("bytes 0..3 belong to value %" PRId64 " but byte %zu is 0x%02x instead of 0x%02x", id, i, b.b[i], pat(id, i));
        return -1;
      }
    return id;
  }
  *why = "first bytes match no stored value";
  return -1;
}

struct RegModel {
  using State = int64_t;
  static void serialize(const State& s, std::string& out) { out.append(reinterpret_cast<const char*>(&s), sizeof s); }
  bool apply(State& s, const OpRec& op) const {
    switch (op.kind) {
    case S_STORE: s = op.a; return true;
    case S_UPDATE:
      if (s != op.r2)
        return false;
      s = op.a;
      return true;
    case S_LOAD: return s == op.r2;
    }
    return false;
  }
};

std::string op_str(const OpRec& o) {
  std::string s = fmt("T%d ", o.thread);
  if (o.kind == S_STORE)
    s += fmt("store(%" PRId64 ")", o.a);
  else if (o.kind == S_UPDATE)
    s += fmt("update(%" PRId64 "->%" PRId64 ")", o.r2, o.a);
  else
    s += fmt("load()->%" PRId64, o.r2);
  s += fmt(" [%" PRIu64 ",%" PRIu64 "]", o.call, o.ret);
  return s;
}

struct POp {
  uint8_t kind;
  int64_t id;
};
std::string g_err;

template <class L, class B>
struct Worker {
  L* lock;
  std::vector<POp> prog;
  std::vector<OpRec> recs;
  bool weak;
  int tid;
  int64_t max_id;
};

template <class L, class B, bool Slots1>
void worker_body(void* p) {
  auto* w = (Worker<L, B>*)p;
  Recorder rec{w->weak};
  for (size_t i = 0; i < w->prog.size(); ++i) {
    const POp& op = w->prog[i];
    OpRec& o = w->recs[i];
    o.thread = (uint8_t)w->tid;
    o.kind = op.kind;
    o.a = op.id;
    std::string why;
    if (op.kind == S_STORE) {
      B v;
      fill(v, op.id);
      rec.begin(o);
      xrt::op_begin(S_STORE, false);
      w->lock->store(v);
      xrt::op_end();
      rec.end(o);
    } else if (op.kind == S_UPDATE) {
      int64_t seen = -2;
      int64_t max_id = w->max_id, nid = op.id;
      rec.begin(o);
      xrt::op_begin(S_UPDATE, false);
      w->lock->update([&](B& cur) {
        seen = decode(cur, max_id, &why);
        fill(cur, nid);
      });
      xrt::op_end();
      rec.end(o);
      o.r2 = seen;
      if (seen < 0) {
        xrt::Quiet q;
        if (g_err.empty())
          g_err = "update() functor was handed a value that was never stored: " + why;
      }
    } else {
      rec.begin(o);
      xrt::op_begin(S_LOAD, !Slots1);
      B v = w->lock->load();
      xrt::op_end();
      rec.end(o);
      int64_t id = decode(v, w->max_id, &why);
      o.r2 = id;
      if (id < 0) {
        xrt::Quiet q;
        if (g_err.empty())
          g_err = "load() returned a value that was never stored (torn or truncated): " + why;
      }
    }
  }
}

template <size_t N, size_t Align, unsigned Slots>
void run_seqlock(const ExecCtx& ctx, ExecOut& out) {
  using B = Blob<N, Align>;
  using L = xenium::seqlock<B, xenium::policy::slots<Slots>>;
  Rng rng(ctx.seed);
  g_err.clear();
  B init;
  fill(init, 0);
  L* lock;
  {
    xrt::quiet_end();
    lock = new L(init);
    xrt::quiet_begin();
  }
  int nwriters = rng.range(1, 2), nreaders = rng.range(1, 3);
  int n = nwriters + nreaders;
  std::vector<Worker<L, B>> workers((size_t)n);
  int64_t next_id = 1;
  for (int t = 0; t < n; ++t) {
    Worker<L, B>& w = workers[(size_t)t];
    int nops = rng.range(1, 6);
    for (int i = 0; i < nops; ++i) {
      if (t < nwriters) {
        uint32_t r = rng.below(10);
        uint8_t k = r < 5 ? S_STORE : r < 8 ? S_UPDATE : S_LOAD;
        w.prog.push_back(POp{k, k == S_LOAD ? 0 : next_id++});
      } else
        w.prog.push_back(POp{S_LOAD, 0});
    }
  }
  std::vector<xrt::ThreadSpec> specs((size_t)n);
  for (int t = 0; t < n; ++t) {
    Worker<L, B>& w = workers[(size_t)t];
    w.lock = lock;
    w.weak = ctx.weak;
    w.tid = t + 1;
    w.max_id = next_id;
    w.recs.resize(w.prog.size());
    specs[(size_t)t].fn = worker_body<L, B, Slots == 1>;
    specs[(size_t)t].arg = &w;
    if (rng.chance(1, 4))
      specs[(size_t)t].start_delay = rng.below(80);
  }
  xrt::run(ctx.runcfg(), specs.data(), n);
  History h;
  h.weak = ctx.weak;
  for (auto& w : workers)
    for (auto& o : w.recs)
      h.ops.push_back(o);
  // final load by main
  {
    OpRec o;
    Recorder rec{ctx.weak};
    o.thread = 0;
    o.kind = S_LOAD;
    rec.begin(o);
    xrt::quiet_end();
    B v = lock->load();
    xrt::quiet_begin();
    rec.end(o);
    std::string why;
    o.r2 = decode(v, next_id, &why);
    if (o.r2 < 0 && g_err.empty())
      g_err = "final load() returned a value that was never stored: " + why;
    h.ops.push_back(o);
  }
  {
    xrt::quiet_end();
    delete lock;
    xrt::quiet_begin();
  }
  compute_overlaps(h);
  out.hist_hash = history_hash(h);
  out.nontrivial = history_nontrivial(h);
  out.history = history_str(h, op_str);
  counters().add("ops", h.ops.size());
  for (auto& o : h.ops)
    if (o.kind == S_LOAD && o.overlap && o.thread)
      counters().add("loads_overlapping_writes");
  if (xrt::has_violation())
    return;
  if (!g_err.empty()) {
    out.fail("C14", "torn-or-invented-value", g_err);
    return;
  }
  RegModel model;
  WglResult wr = wgl_check(h, model, (int64_t)0);
  counters().add("wgl_nodes", wr.nodes);
  if (wr.verdict == V_INCONCLUSIVE) {
    out.inconclusive = true;
    counters().add("wgl_inconclusive");
  } else if (wr.verdict == V_VIOLATION) {
    std::string pre;
    for (int i : wr.best_prefix)
      pre += op_str(h.ops[(size_t)i]) + "; ";
    out.fail("C14", "not-linearizable", "no linearization w.r.t. an atomic register (lost update / stale load); longest legal prefix: " + pre);
  }
}

struct Cfg {
  std::string name;
  std::function<void(const ExecCtx&, ExecOut&)> run;
};
std::vector<Cfg>& table() {
  static std::vector<Cfg>* t = new std::vector<Cfg>();
  return *t;
}
template <size_t N, size_t Align, unsigned Slots>
void reg() {
  table().push_back({fmt("b%zu_a%zu_s%u", N, Align, Slots), [](const ExecCtx& c, ExecOut& o) { run_seqlock<N, Align, Slots>(c, o); }});
}
} // namespace

int main(int argc, char** argv) {
  xrt::quiet_begin();
  reg<9, 1, 1>();
  reg<12, 4, 2>();
  reg<13, 1, 3>();
  reg<16, 8, 1>();
  reg<16, 1, 4>();
  reg<20, 4, 8>();
  reg<24, 8, 2>();
  reg<14, 2, 1>();
  reg<12, 1, 3>();
  reg<24, 8, 8>();
  reg<40, 8, 3>();
  ScenarioDef def;
  def.name = "seqlock";
  for (auto& c : table())
    def.configs.push_back(c.name);
  def.run = [](const std::string& cfg, const ExecCtx& ctx, ExecOut& out) {
    for (auto& c : table())
      if (c.name == cfg) {
        c.run(ctx, out);
        return;
      }
  };
  return scenario_main(argc, argv, def);
}
