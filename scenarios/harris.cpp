// Scenario "harris": C08 (Harris-Michael list based set / hash map are linearizable sets/maps) and C09 (iterators stay
// valid and weakly consistent). -DXV_RECL=<n> selects the reclaimer.
#include "harness.h"
#include "reclaimers.h"

#include <xenium/harris_michael_hash_map.hpp>
#include <xenium/harris_michael_list_based_set.hpp>

#include <deque>
#include <map>
#include <set>

using namespace hz;

namespace {
using R = xv::R;
constexpr int64_t ABSENT = -1;

enum HKind : uint8_t {
  H_EMPLACE = 1, H_EMPLACE_OR_GET, H_GET_OR_EMPLACE, H_GET_OR_EMPLACE_LAZY, H_ERASE, H_FIND_ERASE_IT, H_FIND, H_CONTAINS, H_INDEX,
  H_FINAL // main thread: content seen by the final iteration
};
static const char* hname[] = {"?", "emplace", "emplace_or_get", "get_or_emplace", "get_or_emplace_lazy", "erase", "find+erase(it)",
                              "find", "contains", "operator[]", "final-iteration"};

// OpRec: a = key, b = value offered (insert kinds) / value found (find+erase(it)), r = bool result, r2 = value seen
struct KeyModel {
  using State = int64_t;
  bool is_set = false; // a set has no values: present == 0
  static void serialize(const State& s, std::string& out) { out.append(reinterpret_cast<const char*>(&s), sizeof s); }
  bool apply(State& s, const OpRec& op) const {
    switch (op.kind) {
    case H_EMPLACE:
    case H_EMPLACE_OR_GET:
    case H_GET_OR_EMPLACE:
    case H_GET_OR_EMPLACE_LAZY:
      if (op.r) {
        if (s != ABSENT)
          return false;
        s = is_set ? 0 : op.b;
        return op.kind == H_EMPLACE || is_set || op.r2 == op.b;
      }
      if (s == ABSENT)
        return false;
      return op.kind == H_EMPLACE || is_set || op.r2 == s;
    case H_ERASE:
      if (op.r) {
        if (s == ABSENT)
          return false;
        s = ABSENT;
        return true;
      }
      return s == ABSENT;
    case H_FIND_ERASE_IT:
      // r = the find found (key, b); afterwards that element is gone (removed by us or by somebody else)
      if (!op.r)
        return s == ABSENT;
      if (s == (is_set ? 0 : op.b))
        s = ABSENT;
      return true;
    case H_FIND:
    case H_FINAL:
      if (op.r)
        return s != ABSENT && (is_set || op.r2 == s);
      return s == ABSENT;
    case H_CONTAINS: return op.r ? s != ABSENT : s == ABSENT;
    case H_INDEX:
      if (s == ABSENT)
        s = 0;
      return op.r2 == s;
    }
    return false;
  }
};

std::string op_str(const OpRec& o) {
  return fmt("T%d %s(k=%" PRId64 ",v=%" PRId64 ")->%" PRId64 "/%" PRId64 " [%" PRIu64 ",%" PRIu64 "]", o.thread,
             o.kind <= H_FINAL ? hname[o.kind] : "?", o.a, o.b, o.r, o.r2, o.call, o.ret);
}

// ---- hash functors ---------------------------------------------------------------------------------------------
// non-trivially movable key: like std::string, a moved-from key no longer compares equal to its old value
struct NKey {
  int k = -1;
  uint64_t tag = 0;
  static uint64_t chk(int v) { return (uint64_t)(uint32_t)v * 0x9e3779b97f4a7c15ull + 99; }
  NKey() = default;
  explicit NKey(int v) : k(v), tag(chk(v)) {}
  NKey(const NKey& o) : k(o.k), tag(o.tag) {}
  NKey(NKey&& o) noexcept : k(o.k), tag(o.tag) {
    o.k = -1;
    o.tag = 0;
  }
  NKey& operator=(const NKey& o) {
    k = o.k;
    tag = o.tag;
    return *this;
  }
  NKey& operator=(NKey&& o) noexcept {
    k = o.k;
    tag = o.tag;
    if (&o != this) {
      o.k = -1;
      o.tag = 0;
    }
    return *this;
  }
  explicit operator int() const { return tag == chk(k) ? k : -999; }
  friend bool operator==(const NKey& a, const NKey& b) { return a.k == b.k; }
  friend bool operator!=(const NKey& a, const NKey& b) { return a.k != b.k; }
  friend bool operator<(const NKey& a, const NKey& b) { return a.k < b.k; }
  friend bool operator<=(const NKey& a, const NKey& b) { return a.k <= b.k; }
  friend bool operator>(const NKey& a, const NKey& b) { return a.k > b.k; }
  friend bool operator>=(const NKey& a, const NKey& b) { return a.k >= b.k; }
};
inline int key_int(int k) { return k; }
inline int key_int(const NKey& k) { return k.k; }

struct HashId {
  template <class K>
  size_t operator()(const K& k) const noexcept {
    return (size_t)key_int(k);
  }
};
struct HashConst {
  template <class K>
  size_t operator()(const K&) const noexcept {
    return 7;
  }
};
struct HashRev { // hash order is the reverse of key order
  template <class K>
  size_t operator()(const K& k) const noexcept {
    return (size_t)(1000 - key_int(k));
  }
};
struct HashTwo {
  template <class K>
  size_t operator()(const K& k) const noexcept {
    return (size_t)(key_int(k) % 2);
  }
};

// ---- adapters --------------------------------------------------------------------------------------------------
struct POp {
  uint8_t kind;
  int key;
  int64_t value;
};
struct Yield {
  int key;
  int64_t value;
  uint64_t stamp;
};
struct Traversal {
  uint64_t start = 0, end = 0;
  std::vector<Yield> yields;
  int erased_key = 0; // key removed through erase(iterator) during the traversal, 0 none
  bool completed = false;
  std::string error;
  OpRec erase_op; // the traverser's own erase(iterator), part of the per-key history
};

template <class C>
struct SetAd {
  static constexpr bool is_set = true;
  C c;
  static int mk(int k) { return k; }
  template <class It>
  static int keyof(const It& it) { return *it; }
  template <class It>
  static int64_t val(const It&) { return 0; }
  void exec(const POp& p, OpRec& o) {
    switch (p.kind) {
    case H_EMPLACE: o.r = c.emplace(p.key); break;
    case H_EMPLACE_OR_GET:
    case H_GET_OR_EMPLACE:
    case H_GET_OR_EMPLACE_LAZY:
    case H_INDEX: {
      o.kind = H_EMPLACE_OR_GET;
      auto res = c.emplace_or_get(p.key);
      o.r = res.second;
      o.r2 = o.b;
      if (*res.first != p.key)
        o.r2 = -999;
      break;
    }
    case H_ERASE: o.r = c.erase(p.key); break;
    case H_FIND_ERASE_IT: {
      auto it = c.find(p.key);
      o.r = it != c.end();
      if (o.r) {
        if (*it != p.key)
          o.r2 = -999;
        auto nx = c.erase(std::move(it));
        (void)nx;
      }
      break;
    }
    case H_FIND: {
      auto it = c.find(p.key);
      o.r = it != c.end();
      if (o.r && *it != p.key)
        o.r2 = -999;
      break;
    }
    case H_CONTAINS: o.r = c.contains(p.key); break;
    }
  }
  template <class F>
  void iterate(F f) {
    for (auto it = c.begin(); it != c.end(); ++it)
      f(*it, 0);
  }
  void traverse(Traversal& tr, int erase_at, int variant, const Recorder& rec, int tid) {
    tr.start = xrt::stamp();
    int n = 0;
    // the erase(iterator) of a traversal acts on the element the iterator arrived at earlier: its operation interval starts when
    // the iterator was moved there (another thread may remove / re-insert that key between the arrival and the erase call)
    OpRec arrive;
    rec.begin(arrive);
    auto it = c.begin();
    while (it != c.end()) {
      int k = *it;
      tr.yields.push_back({k, 0, xrt::stamp()});
      if (n == erase_at) {
        tr.erased_key = k;
        tr.erase_op.thread = (uint8_t)tid;
        tr.erase_op.kind = H_FIND_ERASE_IT;
        tr.erase_op.a = k;
        tr.erase_op.b = 0;
        tr.erase_op.r = 1;
        tr.erase_op.call = arrive.call;
        tr.erase_op.cvc = arrive.cvc;
        it = c.erase(std::move(it));
        rec.end(tr.erase_op);
        rec.begin(arrive);
      } else if (variant == 1) {
        rec.begin(arrive);
        auto copy = it; // copies hold their own guards
        ++it;
        if (*copy != k)
          tr.error = "copied iterator changed its element";
      } else if (variant == 2) {
        rec.begin(arrive);
        it++;
      } else {
        rec.begin(arrive);
        ++it;
      }
      ++n;
      if (n > 64) {
        tr.error = "traversal does not terminate (more than 64 yields)";
        break;
      }
    }
    tr.end = xrt::stamp();
    tr.completed = true;
  }
};

template <class C>
struct MapAd {
  static constexpr bool is_set = false;
  using K = std::remove_const_t<typename C::value_type::first_type>;
  static K mk(int k) { return K(k); }
  static int ki(const K& k) { return (int)k; }
  template <class It>
  static int keyof(const It& it) { return ki(it->first); }
  template <class It>
  static int64_t val(const It& it) { return it->second; }
  C c;
  void exec(const POp& p, OpRec& o) {
    switch (p.kind) {
    case H_EMPLACE: o.r = c.emplace(mk(p.key), p.value); break;
    case H_EMPLACE_OR_GET: {
      auto res = c.emplace_or_get(mk(p.key), p.value);
      o.r = res.second;
      o.r2 = res.first->second;
      if (ki(res.first->first) != p.key)
        o.r2 = -999;
      break;
    }
    case H_GET_OR_EMPLACE: {
      auto res = c.get_or_emplace(mk(p.key), p.value);
      o.r = res.second;
      o.r2 = res.first->second;
      if (ki(res.first->first) != p.key)
        o.r2 = -999;
      break;
    }
    case H_GET_OR_EMPLACE_LAZY: {
      int calls = 0;
      int64_t v = p.value;
      auto res = c.get_or_emplace_lazy(mk(p.key), [&calls, v]() {
        ++calls;
        return v;
      });
      o.r = res.second;
      o.r2 = res.first->second;
      if (ki(res.first->first) != p.key || calls > 1 || (o.r && calls != 1))
        o.r2 = -997;
      break;
    }
    case H_ERASE: o.r = c.erase(mk(p.key)); break;
    case H_FIND_ERASE_IT: {
      auto it = c.find(mk(p.key));
      o.r = it != c.end();
      if (o.r) {
        o.b = it->second;
        if (ki(it->first) != p.key)
          o.r2 = -999;
        auto nx = c.erase(std::move(it));
        (void)nx;
      }
      break;
    }
    case H_FIND: {
      auto it = c.find(mk(p.key));
      o.r = it != c.end();
      if (o.r) {
        o.r2 = it->second;
        if (ki(it->first) != p.key)
          o.r2 = -999;
      }
      break;
    }
    case H_CONTAINS: o.r = c.contains(mk(p.key)); break;
    case H_INDEX: {
      auto acc = c[mk(p.key)];
      o.r2 = *acc;
      break;
    }
    }
  }
  template <class F>
  void iterate(F f) {
    for (auto it = c.begin(); it != c.end(); ++it)
      f(ki(it->first), it->second);
  }
  void traverse(Traversal& tr, int erase_at, int variant, const Recorder& rec, int tid) {
    tr.start = xrt::stamp();
    int n = 0;
    // the erase(iterator) of a traversal acts on the element the iterator arrived at earlier: its operation interval starts when
    // the iterator was moved there (another thread may remove / re-insert that key between the arrival and the erase call)
    OpRec arrive;
    rec.begin(arrive);
    auto it = c.begin();
    while (it != c.end()) {
      int k = ki(it->first);
      int64_t v = it->second;
      tr.yields.push_back({k, v, xrt::stamp()});
      if (n == erase_at) {
        tr.erased_key = k;
        tr.erase_op.thread = (uint8_t)tid;
        tr.erase_op.kind = H_FIND_ERASE_IT;
        tr.erase_op.a = k;
        tr.erase_op.b = v;
        tr.erase_op.r = 1;
        tr.erase_op.call = arrive.call;
        tr.erase_op.cvc = arrive.cvc;
        it = c.erase(std::move(it));
        rec.end(tr.erase_op);
        rec.begin(arrive);
      } else if (variant == 1) {
        rec.begin(arrive);
        auto copy = it;
        ++it;
        if (ki(copy->first) != k || copy->second != v)
          tr.error = "copied iterator changed its element";
      } else if (variant == 2) {
        rec.begin(arrive);
        it++;
      } else {
        rec.begin(arrive);
        ++it;
      }
      ++n;
      if (n > 64) {
        tr.error = "traversal does not terminate (more than 64 yields)";
        break;
      }
    }
    tr.end = xrt::stamp();
    tr.completed = true;
  }
};

template <class Ad>
struct Worker {
  Ad* ad;
  std::vector<POp> prog;
  std::vector<OpRec> recs;
  bool weak;
  int tid;
  bool traverser = false;
  std::vector<Traversal> travs;
  int erase_at = -1, variant = 0, ntrav = 1;
};

template <class Ad>
void worker_body(void* p) {
  auto* w = (Worker<Ad>*)p;
  Recorder rec{w->weak};
  if (w->traverser) {
    for (int i = 0; i < w->ntrav; ++i) {
      xrt::op_begin(100, true);
      w->ad->traverse(w->travs[(size_t)i], i == 0 ? w->erase_at : -1, w->variant, rec, w->tid);
      xrt::op_end();
    }
    return;
  }
  for (size_t i = 0; i < w->prog.size(); ++i) {
    const POp& op = w->prog[i];
    OpRec& o = w->recs[i];
    o.thread = (uint8_t)w->tid;
    o.kind = op.kind;
    o.a = op.key;
    o.b = op.value;
    rec.begin(o);
    xrt::op_begin(op.kind, true);
    w->ad->exec(op, o);
    xrt::op_end();
    rec.end(o);
  }
}

// removal / insertion facts for the traversal monitor
struct KeyFacts {
  std::vector<const OpRec*> inserts; // successful insertions (value unique)
  std::vector<const OpRec*> removals; // operations that may have removed an element of this key
};

template <class Ad>
void run_harris(bool with_traversal, const ExecCtx& ctx, ExecOut& out) {
  Rng rng(ctx.seed);
  Ad* ad;
  {
    xrt::quiet_end();
    ad = new Ad();
    xrt::quiet_begin();
  }
  // key universe: 2-4 keys (maximal conflicts per key) or, in a third of the executions, 5-8 keys that are mostly present, so that bucket
  // lists are long enough for searches that restart in the middle of a list and walk several nodes before they have to retry
  const bool shaped_restart = !with_traversal && rng.chance(1, 8); // see below: needs the full universe of 8 keys
  const bool wide = shaped_restart || rng.chance(1, 3);
  const int nkeys = shaped_restart ? 8 : wide ? rng.range(5, 8) : rng.range(2, 4);
  if (wide)
    counters().add("wide_universe_executions");
  int64_t next_val = 1;
  History h;
  h.weak = ctx.weak;
  Recorder mrec{ctx.weak};
  auto main_op = [&](uint8_t kind, int key, int64_t v) {
    OpRec o;
    o.thread = 0;
    o.kind = kind;
    o.a = key;
    o.b = v;
    mrec.begin(o);
    xrt::quiet_end();
    ad->exec(POp{kind, key, v}, o);
    xrt::quiet_begin();
    mrec.end(o);
    h.ops.push_back(o);
  };
  // prefix: some keys present
  if (shaped_restart) {
    counters().add("shaped_restart_programs");
    for (int k : {1, 2, 3, 8})
      main_op(H_EMPLACE, k, next_val++);
  } else
  for (int k = 1; k <= nkeys; ++k)
    if (rng.chance(wide ? 3 : 1, wide ? 4 : 2))
      main_op(H_EMPLACE, k, next_val++);
  int nthreads = with_traversal ? rng.range(2, 4) : rng.range(2, 4);
  std::vector<Worker<Ad>> workers((size_t)nthreads);
  for (int t = 0; t < nthreads; ++t) {
    Worker<Ad>& w = workers[(size_t)t];
    w.ad = ad;
    w.weak = ctx.weak;
    w.tid = t + 1;
    if (with_traversal && t == 0) {
      w.traverser = true;
      w.ntrav = rng.range(1, 2);
      w.travs.resize((size_t)w.ntrav);
      w.erase_at = rng.chance(1, 3) ? (int)rng.below(3) : -1;
      w.variant = (int)rng.below(3);
      continue;
    }
    // shaped (an eighth of the wide executions): a search that is restarted in the middle of a bucket list. Thread 1 inserts a high key
    // (its insertion CAS fails when somebody links a node behind its predecessor, and the search resumes from that predecessor);
    // thread 2 inserts twice behind that predecessor, erases the predecessor and inserts once more further down, which forces the
    // resumed search to retry from its start node once again
    if (shaped_restart && !with_traversal && t < 2 && nkeys >= 8) {
      static const uint8_t ins[] = {H_EMPLACE, H_EMPLACE_OR_GET, H_GET_OR_EMPLACE, H_GET_OR_EMPLACE_LAZY};
      if (t == 0) {
        w.prog.push_back(POp{ins[rng.below(4)], 7, next_val++});
        if (rng.chance(1, 2))
          w.prog.push_back(POp{H_FIND, 7, next_val++});
      } else {
        w.prog.push_back(POp{ins[rng.below(4)], 4, next_val++});
        w.prog.push_back(POp{ins[rng.below(4)], 5, next_val++});
        w.prog.push_back(POp{rng.chance(1, 3) ? (uint8_t)H_FIND_ERASE_IT : (uint8_t)H_ERASE, 3, next_val++});
        w.prog.push_back(POp{ins[rng.below(4)], 6, next_val++});
      }
      w.recs.resize(w.prog.size());
      continue;
    }
    int nops = rng.range(1, with_traversal ? 5 : 6);
    for (int i = 0; i < nops; ++i) {
      uint32_t r = rng.below(100);
      uint8_t kind = r < 22 ? H_EMPLACE : r < 30 ? H_EMPLACE_OR_GET : r < 36 ? H_GET_OR_EMPLACE : r < 42 ? H_GET_OR_EMPLACE_LAZY
                     : r < 66 ? H_ERASE : r < 74 ? H_FIND_ERASE_IT : r < 88 ? H_FIND : r < 95 ? H_CONTAINS : H_INDEX;
      if (with_traversal && kind == H_INDEX)
        kind = H_FIND;
      w.prog.push_back(POp{kind, rng.range(1, nkeys), next_val++});
    }
    w.recs.resize(w.prog.size());
  }
  std::vector<xrt::ThreadSpec> specs((size_t)nthreads);
  for (int t = 0; t < nthreads; ++t) {
    specs[(size_t)t].fn = worker_body<Ad>;
    specs[(size_t)t].arg = &workers[(size_t)t];
    if (rng.chance(1, 4))
      specs[(size_t)t].start_delay = rng.below(100);
  }
  xrt::run(ctx.runcfg(), specs.data(), nthreads);
  for (auto& w : workers) {
    for (auto& o : w.recs)
      h.ops.push_back(o);
    for (auto& tr : w.travs)
      if (tr.erased_key)
        h.ops.push_back(tr.erase_op);
  }
  // final content by iteration (main): one FINAL op per key of the universe
  std::map<int, int64_t> content;
  std::string iter_err;
  uint64_t fcall = xrt::stamp();
  xrt::VC fvc{};
  if (ctx.weak)
    xrt::clock(&fvc);
  {
    xrt::quiet_end();
    ad->iterate([&](int k, int64_t v) {
      if (content.count(k))
        iter_err = fmt("final iteration yields key %d twice", k);
      content[k] = v;
    });
    xrt::quiet_begin();
  }
  uint64_t fret = xrt::stamp();
  for (auto& kv : content)
    if (kv.first < 1 || kv.first > nkeys)
      iter_err = fmt("final iteration yields key %d which was never inserted", kv.first);
  for (int k = 1; k <= nkeys; ++k) {
    OpRec o;
    o.thread = 0;
    o.kind = H_FINAL;
    o.a = k;
    o.r = content.count(k) ? 1 : 0;
    o.r2 = o.r ? content[k] : 0;
    o.call = fcall;
    o.ret = fret;
    o.cvc = fvc;
    o.rvc = fvc;
    o.done = true;
    h.ops.push_back(o);
  }
  {
    xrt::quiet_end();
    delete ad;
    xrt::quiet_begin();
  }
  compute_overlaps(h);
  out.hist_hash = history_hash(h);
  out.nontrivial = history_nontrivial(h);
  out.history = history_str(h, op_str);
  counters().add("ops", h.ops.size());
  for (auto& w : workers)
    for (auto& tr : w.travs) {
      counters().add("traversals");
      counters().add("traversal_yields", tr.yields.size());
      out.history += fmt("T%d traversal [%" PRIu64 ",%" PRIu64 "] erase(it) on key %d: ", w.tid, tr.start, tr.end, tr.erased_key);
      for (auto& y : tr.yields)
        out.history += fmt("(%d,%" PRId64 ")@%" PRIu64 " ", y.key, y.value, y.stamp);
      out.history += "\n";
    }
  if (xrt::has_violation())
    return;
  if (!iter_err.empty()) {
    out.fail("C08", "final-iteration", iter_err);
    return;
  }
  for (auto& o : h.ops)
    if (o.r2 <= -997) {
      out.fail("C08", "wrong-element", op_str(o) + (o.r2 == -997 ? ": factory call count wrong" : ": returned iterator refers to another key"));
      return;
    }
  // ---- per-key linearizability (P-compositionality)
  KeyModel model;
  model.is_set = Ad::is_set;
  for (int k = 1; k <= nkeys; ++k) {
    History hk;
    hk.weak = h.weak;
    for (auto& o : h.ops)
      if (o.a == k)
        hk.ops.push_back(o);
    WglResult wr = wgl_check(hk, model, ABSENT);
    counters().add("wgl_nodes", wr.nodes);
    if (wr.verdict == V_INCONCLUSIVE) {
      out.inconclusive = true;
      counters().add("wgl_inconclusive");
    } else if (wr.verdict == V_VIOLATION) {
      std::string pre;
      for (int i : wr.best_prefix)
        pre += op_str(hk.ops[(size_t)i]) + "; ";
      out.fail("C08", "not-linearizable", fmt("operations on key %d are not linearizable w.r.t. a sequential %s; longest legal prefix: ", k,
                                              Ad::is_set ? "set" : "map") + pre);
      return;
    }
  }
  // ---- traversal monitor (C09), sequentially consistent executions only
  if (!with_traversal || ctx.weak)
    return;
  std::map<int, KeyFacts> facts;
  for (auto& o : h.ops) {
    bool ins = (o.kind >= H_EMPLACE && o.kind <= H_GET_OR_EMPLACE_LAZY) && o.r;
    bool rem = (o.kind == H_ERASE && o.r) || (o.kind == H_FIND_ERASE_IT && o.r);
    if (ins)
      facts[(int)o.a].inserts.push_back(&o);
    if (rem)
      facts[(int)o.a].removals.push_back(&o);
  }
  for (auto& w : workers)
    for (auto& tr : w.travs) {
      if (!tr.error.empty()) {
        out.fail("C09", "iterator-misbehaves", tr.error);
        return;
      }
      // the traverser's own erase(iterator) is a removal of that key inside the traversal
      std::set<std::pair<int, int64_t>> seen;
      for (auto& y : tr.yields) {
        if (y.key < 1 || y.key > nkeys) {
          out.fail("C09", "yield-invented", fmt("traversal yields key %d which was never inserted", y.key));
          return;
        }
        if (!seen.insert({y.key, y.value}).second) {
          // a set cannot tell incarnations of a key apart: a repeated key is legal if an insertion of that key may
          // have taken effect between the two yields
          bool reinserted = false;
          if (Ad::is_set) {
            uint64_t first = 0;
            for (auto& y0 : tr.yields)
              if (y0.key == y.key) {
                first = y0.stamp;
                break;
              }
            // (the first yield may have been the old, logically deleted incarnation: any insertion that overlaps the
            // traversal before the second yield explains the repetition)
            (void)first;
            for (auto* i : facts[y.key].inserts)
              if (i->ret > tr.start && i->call < y.stamp)
                reinserted = true;
          }
          if (!reinserted) {
            out.fail("C09", "yield-twice", fmt("traversal yields element (%d,%" PRId64 ") twice without re-insertion", y.key, y.value));
            return;
          }
        }
        // definitely absent during [start, y.stamp]?
        KeyFacts& kf = facts[y.key];
        const OpRec* ins = nullptr;
        for (auto* i : kf.inserts)
          if (Ad::is_set || i->b == y.value)
            ins = i;
        if (!Ad::is_set) {
          if (!ins) {
            out.fail("C09", "yield-invented", fmt("traversal yields (%d,%" PRId64 ") but no insertion produced this value", y.key, y.value));
            return;
          }
          if (ins->call > y.stamp) {
            out.fail("C09", "yield-from-the-future", fmt("traversal yields (%d,%" PRId64 ") before its insertion was invoked", y.key, y.value));
            return;
          }
          // removed for sure before the traversal started: a removal that returned before start and that can only
          // have removed this value (the only insertion of the key invoked before that removal returned)
          for (auto* e : kf.removals) {
            if (e->ret >= tr.start || ins->ret >= e->call)
              continue;
            int candidates = 0;
            for (auto* i : kf.inserts)
              if (i->call < e->ret)
                ++candidates;
            bool reinserted_same = false;
            (void)reinserted_same;
            if (candidates == 1) {
              out.fail("C09", "yield-of-removed-element",
                       fmt("traversal [%" PRIu64 ",%" PRIu64 "] yields (%d,%" PRId64 ") which was removed before the traversal started (%s)",
                           tr.start, tr.end, y.key, y.value, op_str(*e).c_str()));
              return;
            }
          }
        }
      }
      // every element that is definitely present during the whole traversal must be yielded
      for (auto& kfp : facts) {
        int k = kfp.first;
        KeyFacts& kf = kfp.second;
        if (k == tr.erased_key)
          continue;
        for (auto* i : kf.inserts) {
          if (i->ret >= tr.start)
            continue;
          // any removal of this key that could take effect before the traversal ended?
          bool maybe_removed = false;
          for (auto* e : kf.removals)
            if (e->call <= tr.end)
              maybe_removed = true;
          // another insertion of the same key before: then this one may not be the present one - only the latest
          // insertion that completed before start with no possible removal counts; earlier ones must have been removed
          bool later_insert = false;
          for (auto* j : kf.inserts)
            if (j != i && j->call > i->call)
              later_insert = true;
          if (maybe_removed || later_insert)
            continue;
          bool yielded = false;
          for (auto& y : tr.yields)
            if (y.key == k && (Ad::is_set || y.value == i->b))
              yielded = true;
          if (!yielded) {
            out.fail("C09", "element-skipped",
                     fmt("element (%d,%" PRId64 ") was in the container during the whole traversal [%" PRIu64 ",%" PRIu64
                         "] (inserted by %s, never removed) but was not yielded",
                         k, i->b, tr.start, tr.end, op_str(*i).c_str()));
            return;
          }
        }
      }
    }
}

// ---- sequential differential runs (C08: "all single-threaded operation sequences up to a bound and long random sequences
// against std::set / std::map") ------------------------------------------------------------------------------------------
// One execution = one sequence executed on the main thread only and compared step by step with std::map: either a slice of the
// enumeration of ALL sequences of `exh_len` operations over two keys (execution index selects the slice), or a random sequence of
// 100-500 operations over 3-40 keys. Besides the result of every operation the monitor compares the complete content by iteration
// (for the set: in the order of the compare functor) after every few steps, and the iterator returned by erase(iterator).
template <class Ad>
struct SeqRunner {
  Ad* ad = nullptr;
  std::map<int, int64_t> model;
  int order; // set: +1 ascending, -1 descending; map: 0 (bucket order, unspecified)
  ExecOut& out;
  std::deque<std::string> log;
  uint64_t nops = 0;
  int64_t next_val = 1;
  SeqRunner(int ord, ExecOut& o) : order(ord), out(o) {}
  void fresh() {
    xrt::quiet_end();
    delete ad;
    ad = new Ad();
    xrt::quiet_begin();
    model.clear();
    log.clear();
  }
  void bad(const char* kind, const std::string& msg) {
    std::string w = fmt("after %" PRIu64 " operations; the last ones: ", nops);
    for (auto& l : log)
      w += l + "; ";
    out.fail("C08", kind, msg + " - " + w);
  }
  bool step(uint8_t kind, int key) {
    OpRec o;
    o.thread = 0;
    o.kind = kind;
    o.a = key;
    o.b = next_val++;
    const bool present = model.count(key) != 0;
    const int64_t old = present ? model[key] : ABSENT;
    int next_key = -1; // erase(iterator): key the returned iterator refers to, 0 = end()
    xrt::quiet_end();
    if (kind == H_FIND_ERASE_IT) {
      auto it = ad->c.find(Ad::mk(key));
      o.r = it != ad->c.end();
      if (o.r) {
        o.b = Ad::val(it);
        if (Ad::keyof(it) != key)
          o.r2 = -999;
        auto nx = ad->c.erase(std::move(it));
        next_key = nx == ad->c.end() ? 0 : Ad::keyof(nx);
      }
    } else {
      ad->exec(POp{kind, key, o.b}, o);
    }
    xrt::quiet_begin();
    ++nops;
    log.push_back(fmt("%s(k=%d,v=%" PRId64 ")->%" PRId64 "/%" PRId64, hname[kind], key, o.b, o.r, o.r2));
    if (log.size() > 14)
      log.pop_front();
    if (o.r2 <= -997) {
      bad("wrong-element", "the returned iterator refers to another key / factory call count wrong");
      return false;
    }
    const bool set = Ad::is_set;
    if (set && kind == H_INDEX)
      kind = H_EMPLACE_OR_GET; // a set has no operator[]: the adapter executes emplace_or_get
    switch (kind) {
    case H_EMPLACE:
    case H_EMPLACE_OR_GET:
    case H_GET_OR_EMPLACE:
    case H_GET_OR_EMPLACE_LAZY:
      if ((o.r != 0) != !present) {
        bad("seq-diff", fmt("%s of key %d returned %" PRId64 " but the key was %s", hname[kind], key, o.r, present ? "present" : "absent"));
        return false;
      }
      if (!present)
        model[key] = set ? 0 : o.b;
      if (!set && kind != H_EMPLACE && o.r2 != model[key]) {
        bad("seq-diff", fmt("%s of key %d yields value %" PRId64 ", the map holds %" PRId64, hname[kind], key, o.r2, model[key]));
        return false;
      }
      break;
    case H_ERASE:
      if ((o.r != 0) != present) {
        bad("seq-diff", fmt("erase of key %d returned %" PRId64 " but the key was %s", key, o.r, present ? "present" : "absent"));
        return false;
      }
      model.erase(key);
      break;
    case H_FIND_ERASE_IT: {
      if ((o.r != 0) != present || (present && !set && o.b != old)) {
        bad("seq-diff", fmt("find of key %d returned %" PRId64 "/%" PRId64 " but the map holds %" PRId64, key, o.r, o.b, old));
        return false;
      }
      if (present) {
        int expect = -1; // -1: any remaining element or end
        if (order) {
          expect = 0;
          if (order > 0) {
            auto it = model.upper_bound(key);
            if (it != model.end())
              expect = it->first;
          } else {
            auto it = model.lower_bound(key);
            if (it != model.begin())
              expect = std::prev(it)->first;
          }
        }
        model.erase(key);
        if (expect >= 0 ? next_key != expect : (next_key != 0 && !model.count(next_key))) {
          bad("erase-it-next", fmt("erase(iterator) of key %d returned an iterator to key %d (0 = end), expected %s", key, next_key,
                                   expect >= 0 ? fmt("%d", expect).c_str() : "a remaining element or end"));
          return false;
        }
      }
      break;
    }
    case H_FIND:
      if ((o.r != 0) != present || (present && !set && o.r2 != old)) {
        bad("seq-diff", fmt("find of key %d returned %" PRId64 "/%" PRId64 " but the map holds %" PRId64, key, o.r, o.r2, old));
        return false;
      }
      break;
    case H_CONTAINS:
      if ((o.r != 0) != present) {
        bad("seq-diff", fmt("contains of key %d returned %" PRId64 " but the key was %s", key, o.r, present ? "present" : "absent"));
        return false;
      }
      break;
    case H_INDEX:
      if (!present)
        model[key] = 0;
      if (o.r2 != model[key]) {
        bad("seq-diff", fmt("operator[] of key %d yields %" PRId64 ", the map holds %" PRId64, key, o.r2, model[key]));
        return false;
      }
      break;
    }
    return true;
  }
  // ---- an iterator held across other operations of the same thread (C09: "... or the same thread through other handles")
  // it = find(k); 0-2 updates by key; then erase(it) or ++it. The expected position is exact: the element following k in a fresh
  // iteration taken just before the action (if k itself was removed in between: the first element after k in compare order for the
  // set, any present element or end for the map, whose bucket order the harness does not model).
  std::vector<int> order_now() {
    std::vector<int> v;
    xrt::quiet_end();
    ad->iterate([&](int k, int64_t) { v.push_back(k); });
    xrt::quiet_begin();
    return v;
  }
  bool hold_episode(Rng& rng, int nkeys) {
    const int key = rng.range(1, nkeys);
    const bool present = model.count(key) != 0;
    xrt::quiet_end();
    auto it = ad->c.find(Ad::mk(key));
    const bool found = it != ad->c.end();
    xrt::quiet_begin();
    ++nops;
    log.push_back(fmt("hold: it=find(k=%d)->%d", key, (int)found));
    if (found != present) {
      bad("seq-diff", fmt("find of key %d returned %d but the key was %s", key, (int)found, present ? "present" : "absent"));
      return false;
    }
    if (!found)
      return true;
    const int64_t val0 = Ad::is_set ? 0 : model[key];
    int nmid = (int)rng.below(3);
    bool removed_mid = false; // the element under the iterator was removed in between (a later re-insertion is another incarnation)
    for (int i = 0; i < nmid; ++i) {
      static const uint8_t mid[] = {H_EMPLACE, H_ERASE, H_ERASE, H_GET_OR_EMPLACE, H_CONTAINS, H_EMPLACE_OR_GET};
      int k2 = rng.chance(1, 4) ? key : rng.range(1, nkeys);
      if (!step(mid[rng.below(sizeof mid)], k2))
        return false;
      if (!model.count(key))
        removed_mid = true;
    }
    // the held iterator still refers to its element, whatever happened to the container
    xrt::quiet_end();
    const int kk = Ad::keyof(it);
    const int64_t vv = Ad::val(it);
    xrt::quiet_begin();
    if (kk != key || (!Ad::is_set && vv != val0)) {
      bad_c09("iterator-misbehaves", fmt("held iterator on (%d,%" PRId64 ") now dereferences to (%d,%" PRId64 ")", key, val0, kk, vv));
      return false;
    }
    const std::vector<int> ord = order_now();
    const bool still = !removed_mid && model.count(key) != 0;
    int expect = -1; // -1: any present element other than `key`, or end
    if (still) {
      auto pos = std::find(ord.begin(), ord.end(), key);
      expect = (pos == ord.end() || pos + 1 == ord.end()) ? 0 : *(pos + 1);
    } else if (order) {
      expect = 0;
      for (int k : ord)
        if (order > 0 ? k > key : k < key) {
          expect = k;
          break;
        }
    }
    const bool do_erase = rng.chance(1, 2);
    xrt::quiet_end();
    int next_key;
    if (do_erase) {
      auto nx = ad->c.erase(std::move(it));
      next_key = nx == ad->c.end() ? 0 : Ad::keyof(nx);
    } else {
      ++it;
      next_key = it == ad->c.end() ? 0 : Ad::keyof(it);
      it.reset();
    }
    xrt::quiet_begin();
    ++nops;
    log.push_back(fmt("hold: %s -> iterator on key %d (0 = end)", do_erase ? "erase(it)" : "++it", next_key));
    if (log.size() > 14)
      log.pop_front();
    if (do_erase && still)
      model.erase(key);
    bool ok = expect >= 0 ? next_key == expect : (next_key == 0 || (next_key != key && model.count(next_key)));
    if (!still && model.count(key) && next_key == key)
      ok = true; // the key was re-inserted (another incarnation): it may legitimately lie ahead
    if (!ok) {
      bad_c09("iter-next-wrong", fmt("%s on a held iterator on key %d moved to key %d (0 = end), expected %s", do_erase ? "erase(iterator)" : "operator++", key,
                                 next_key, expect >= 0 ? fmt("%d", expect).c_str() : "a present element or end"));
      return false;
    }
    return compare_content();
  }
  void bad_c09(const char* kind, const std::string& msg) {
    std::string w = fmt("after %" PRIu64 " operations; the last ones: ", nops);
    for (auto& l : log)
      w += l + "; ";
    out.fail("C09", kind, msg + " - " + w);
  }
  bool compare_content() {
    std::vector<std::pair<int, int64_t>> got;
    xrt::quiet_end();
    ad->iterate([&](int k, int64_t v) { got.push_back({k, v}); });
    xrt::quiet_begin();
    std::vector<std::pair<int, int64_t>> want(model.begin(), model.end());
    if (order < 0)
      std::reverse(want.begin(), want.end());
    if (!order)
      std::sort(got.begin(), got.end());
    if (got != want) {
      std::string g, w;
      for (auto& e : got)
        g += fmt("(%d,%" PRId64 ")", e.first, e.second);
      for (auto& e : want)
        w += fmt("(%d,%" PRId64 ")", e.first, e.second);
      bad("seq-content", "iteration yields " + g + " but the reference container holds " + w);
      return false;
    }
    return true;
  }
};

constexpr uint8_t SEQ_KINDS[] = {H_EMPLACE, H_EMPLACE_OR_GET, H_GET_OR_EMPLACE, H_GET_OR_EMPLACE_LAZY, H_ERASE, H_FIND_ERASE_IT, H_FIND, H_CONTAINS, H_INDEX};

template <class Ad>
void run_seq(int order, bool hold, const ExecCtx& ctx, ExecOut& out) {
  Rng rng(ctx.seed);
  SeqRunner<Ad> sr(order, out);
  const int NK = sizeof SEQ_KINDS;
  const int alphabet = NK * 2; // 9 operation kinds x 2 keys
  bool ok = true;
  uint64_t seqs = 0;
  if (!hold && ctx.exec % 3 == 0) {
    // slice of the exhaustive enumeration: all sequences of length 4 over the alphabet = 104 976; 243 slices of 432 sequences
    const uint64_t total = (uint64_t)alphabet * alphabet * alphabet * alphabet;
    const uint64_t per = 432;
    uint64_t slice = (ctx.exec / 3) % (total / per);
    for (uint64_t n = slice * per; ok && n < (slice + 1) * per; ++n) {
      sr.fresh();
      uint64_t x = n;
      for (int i = 0; ok && i < 4; ++i, x /= (uint64_t)alphabet) {
        int sym = (int)(x % (uint64_t)alphabet);
        ok = sr.step(SEQ_KINDS[sym % NK], 1 + sym / NK);
      }
      ok = ok && sr.compare_content();
      ++seqs;
    }
    counters().add("seq_exhaustive_sequences", seqs);
    counters().add("seq_exhaustive_slices");
  } else {
    sr.fresh();
    int nkeys = rng.chance(1, 2) ? rng.range(3, 8) : rng.range(9, 40);
    int len = rng.range(100, 500);
    int bias = (int)rng.below(3); // 0 balanced, 1 grow, 2 shrink
    for (int i = 0; ok && i < len; ++i) {
      uint32_t r = rng.below(100);
      uint8_t kind = r < 18 ? H_EMPLACE : r < 26 ? H_EMPLACE_OR_GET : r < 32 ? H_GET_OR_EMPLACE : r < 38 ? H_GET_OR_EMPLACE_LAZY
                     : r < 58 ? H_ERASE : r < 72 ? H_FIND_ERASE_IT : r < 86 ? H_FIND : r < 94 ? H_CONTAINS : H_INDEX;
      if (bias == 1 && (kind == H_ERASE || kind == H_FIND_ERASE_IT) && rng.chance(1, 2))
        kind = H_EMPLACE;
      if (bias == 2 && kind <= H_GET_OR_EMPLACE_LAZY && rng.chance(1, 2))
        kind = H_ERASE;
      if (hold && rng.chance(1, 4)) {
        ok = sr.hold_episode(rng, nkeys);
        counters().add("hold_episodes");
      } else
        ok = sr.step(kind, rng.range(1, nkeys));
      if (ok && (i % 16 == 15 || i + 1 == len))
        ok = sr.compare_content();
    }
    counters().add("seq_random_sequences");
    counters().max("max_seq_size", sr.model.size());
  }
  {
    xrt::quiet_end();
    delete sr.ad;
    xrt::quiet_begin();
  }
  counters().add("ops", sr.nops);
  counters().add("seq_ops", sr.nops);
  out.hist_hash = mix64(ctx.seed, sr.nops);
  out.nontrivial = true; // sequential by construction: distinct sequences, see the rule text
}

struct Cfg {
  std::string name;
  std::function<void(const ExecCtx&, ExecOut&)> run;
};
std::vector<Cfg>& table() {
  static std::vector<Cfg>* t = new std::vector<Cfg>();
  return *t;
}
namespace xp = xenium::policy;
template <class Ad>
void reg(const std::string& name, int order = 0) {
  table().push_back({"lin_" + name, [](const ExecCtx& c, ExecOut& o) { run_harris<Ad>(false, c, o); }});
  table().push_back({"trav_" + name, [](const ExecCtx& c, ExecOut& o) { run_harris<Ad>(true, c, o); }});
  table().push_back({"seq_" + name, [order](const ExecCtx& c, ExecOut& o) { run_seq<Ad>(order, false, c, o); }});
  table().push_back({"hold_" + name, [order](const ExecCtx& c, ExecOut& o) { run_seq<Ad>(order, true, c, o); }});
}
template <size_t B, class H, bool M>
using Map = xenium::harris_michael_hash_map<int, int64_t, xp::reclaimer<R>, xp::buckets<B>, xp::hash<H>, xp::memoize_hash<M>>;
template <size_t B, class H, bool M>
using NMap = xenium::harris_michael_hash_map<NKey, int64_t, xp::reclaimer<R>, xp::buckets<B>, xp::hash<H>, xp::memoize_hash<M>>;
} // namespace

int main(int argc, char** argv) {
  xrt::quiet_begin();
  reg<SetAd<xenium::harris_michael_list_based_set<int, xp::reclaimer<R>>>>("set_less", 1);
  reg<SetAd<xenium::harris_michael_list_based_set<int, xp::reclaimer<R>, xp::compare<std::greater<int>>>>>("set_greater", -1);
  reg<MapAd<Map<1, HashId, false>>>("map_b1_id_m0");
  reg<MapAd<Map<1, HashRev, true>>>("map_b1_rev_m1");
  reg<MapAd<Map<1, HashRev, false>>>("map_b1_rev_m0");
  reg<MapAd<Map<2, HashConst, true>>>("map_b2_const_m1");
  reg<MapAd<Map<4, HashTwo, false>>>("map_b4_two_m0");
  reg<MapAd<Map<2, HashId, true>>>("map_b2_id_m1");
  reg<MapAd<NMap<1, HashId, false>>>("map_nk_b1_id_m0");
  reg<MapAd<NMap<2, HashConst, true>>>("map_nk_b2_const_m1");
  static std::string name = std::string("harris.") + xv::RNAME;
  ScenarioDef def;
  def.name = name.c_str();
  for (auto& c : table())
    def.configs.push_back(c.name);
  def.run = [](const std::string& cfg, const ExecCtx& ctx, ExecOut& out) {
    for (auto& c : table())
      if (c.name == cfg) {
        c.run(ctx, out);
        return;
      }
  };
  return scenario_main(argc, argv, def);
}
