// Scenario "vyukov": C10 (vyukov_hash_map is a linearizable map incl. lock-free reads and resizing) and C11 (iterators:
// exclusive traversal, erase(iterator), no lost locks). -DXV_RECL=<n> selects the reclaimer (not lock_free_ref_count).
#include "harness.h"
#include "reclaimers.h"

#include <xenium/vyukov_hash_map.hpp>

#include <map>
#include <set>
#include <unordered_map>

using namespace hz;

namespace {
using R = xv::R;
constexpr int64_t ABSENT = -1;

enum VKind : uint8_t { V_EMPLACE = 1, V_GET_OR_EMPLACE, V_GET_OR_EMPLACE_LAZY, V_ERASE, V_EXTRACT, V_TRYGET, V_FIND, V_FIND_ERASE_IT, V_FINAL };
static const char* vname[] = {"?", "emplace", "get_or_emplace", "get_or_emplace_lazy", "erase", "extract", "try_get_value", "find",
                              "find+erase(it)", "final-iteration"};

struct KeyModel {
  using State = int64_t;
  static void serialize(const State& s, std::string& out) { out.append(reinterpret_cast<const char*>(&s), sizeof s); }
  bool apply(State& s, const OpRec& op) const {
    switch (op.kind) {
    case V_EMPLACE:
    case V_GET_OR_EMPLACE:
    case V_GET_OR_EMPLACE_LAZY:
      if (op.r) {
        if (s != ABSENT)
          return false;
        s = op.b;
        return op.kind == V_EMPLACE || op.r2 == op.b;
      }
      if (s == ABSENT)
        return false;
      return op.kind == V_EMPLACE || op.r2 == s;
    case V_ERASE:
      if (op.r) {
        if (s == ABSENT)
          return false;
        s = ABSENT;
        return true;
      }
      return s == ABSENT;
    case V_EXTRACT:
    case V_FIND_ERASE_IT: // the iterator holds the bucket lock: find + erase(iterator) is one atomic step
      if (op.r) {
        if (s == ABSENT || s != op.r2)
          return false;
        s = ABSENT;
        return true;
      }
      return s == ABSENT;
    case V_TRYGET:
    case V_FIND:
    case V_FINAL:
      if (op.r)
        return s != ABSENT && op.r2 == s;
      return s == ABSENT;
    }
    return false;
  }
};

std::string op_str(const OpRec& o) {
  return fmt("T%d %s(k=%" PRId64 ",v=%" PRId64 ")->%" PRId64 "/%" PRId64 " [%" PRIu64 ",%" PRIu64 "]", o.thread,
             o.kind <= V_FINAL ? vname[o.kind] : "?", o.a, o.b, o.r, o.r2, o.call, o.ret);
}

// ---- hash: behaviour selected per execution (read-only while threads run)
int g_hash_mode = 0;
inline size_t hash_int(int k) {
  switch (g_hash_mode) {
  case 1: return (size_t)(k % 2);
  case 2: return 5;
  case 3: return (size_t)(k * 128); // same bucket for every capacity <= 128, different above
  case 4: return (size_t)(k * 256); // same bucket up to 256 buckets: still colliding after the first growth of a 128-bucket table
  default: return (size_t)k;
  }
}

inline uint64_t chk(int64_t id) { return (uint64_t)id * 0x9e3779b97f4a7c15ull + 12345; }

// ---- storage modes -------------------------------------------------------------------------------------------------
struct KeyS { // non-trivial key
  int k = 0;
  uint64_t pad = 0;
  KeyS() = default;
  explicit KeyS(int kk) : k(kk), pad(chk(kk)) {}
  KeyS(const KeyS& o) : k(o.k), pad(o.pad) {}
  KeyS& operator=(const KeyS& o) {
    k = o.k;
    pad = o.pad;
    return *this;
  }
  ~KeyS() { pad = 0; }
  bool operator==(const KeyS& o) const { return k == o.k; }
};
struct ValS { // non-trivial value
  int64_t id = -7;
  uint64_t c = 0;
  ValS() = default;
  explicit ValS(int64_t i) : id(i), c(chk(i)) {}
  ValS(const ValS& o) : id(o.id), c(o.c) {}
  ValS& operator=(const ValS& o) {
    id = o.id;
    c = o.c;
    return *this;
  }
  ~ValS() { c = 0xdead; }
};
struct VNode : R::template enable_concurrent_ptr<VNode> {
  int64_t id;
  uint64_t c;
  explicit VNode(int64_t i) : id(i), c(chk(i)) {}
  ~VNode() override { c = 0xdead; }
};
struct HashI {
  size_t operator()(int k) const noexcept { return hash_int(k); }
};
struct HashS {
  size_t operator()(const KeyS& k) const noexcept { return hash_int(k.k); }
};
namespace xp = xenium::policy;

inline int64_t checked(int64_t id, uint64_t c) { return c == chk(id) ? id : -999; }

struct ModeTT { // trivial key, trivial value
  static constexpr const char* name = "tt";
  using Map = xenium::vyukov_hash_map<int, int64_t, xp::reclaimer<R>, xp::hash<HashI>>;
  static int key(int k) { return k; }
  static int key_int(int k) { return k; }
  static int64_t val(int64_t id) { return id; }
  static void drop_val(int64_t) {}
  template <class A> static int64_t acc_id(A& a) { return *a; }
  template <class P> static int64_t pair_id(P&& p) { return p.second; }
  template <class A> static void after_extract(A&) {}
};
struct ModeTM { // trivial key, managed_ptr value
  static constexpr const char* name = "tm";
  using Map = xenium::vyukov_hash_map<int, xenium::managed_ptr<VNode, R>, xp::reclaimer<R>, xp::hash<HashI>>;
  static int key(int k) { return k; }
  static int key_int(int k) { return k; }
  static VNode* val(int64_t id) { return new VNode(id); }
  static void drop_val(VNode* n) { delete n; }
  template <class A> static int64_t acc_id(A& a) { return checked(a->id, a->c); }
  template <class P> static int64_t pair_id(P&& p) { return checked(p.second->id, p.second->c); }
  template <class A> static void after_extract(A& a) { a.reclaim(); }
};
struct ModeSM { // non-trivial key, managed_ptr value
  static constexpr const char* name = "sm";
  using Map = xenium::vyukov_hash_map<KeyS, xenium::managed_ptr<VNode, R>, xp::reclaimer<R>, xp::hash<HashS>>;
  static KeyS key(int k) { return KeyS(k); }
  static int key_int(const KeyS& k) { return k.pad == chk(k.k) ? k.k : -999; }
  static VNode* val(int64_t id) { return new VNode(id); }
  static void drop_val(VNode* n) { delete n; }
  template <class A> static int64_t acc_id(A& a) { return checked(a->id, a->c); }
  template <class P> static int64_t pair_id(P&& p) { return checked(p.second->id, p.second->c); }
  template <class A> static void after_extract(A&) {} // this accessor type offers no reclaim(); the extracted value is simply dropped
};
struct ModeTS { // trivial key, non-trivial value
  static constexpr const char* name = "ts";
  using Map = xenium::vyukov_hash_map<int, ValS, xp::reclaimer<R>, xp::hash<HashI>>;
  static int key(int k) { return k; }
  static int key_int(int k) { return k; }
  static ValS val(int64_t id) { return ValS(id); }
  static void drop_val(const ValS&) {}
  template <class A> static int64_t acc_id(A& a) { return checked((*a).id, (*a).c); }
  template <class P> static int64_t pair_id(P&& p) { return checked(p.second.id, p.second.c); }
  template <class A> static void after_extract(A&) {}
};
struct ModeSS { // non-trivial key, non-trivial value
  static constexpr const char* name = "ss";
  using Map = xenium::vyukov_hash_map<KeyS, ValS, xp::reclaimer<R>, xp::hash<HashS>>;
  static KeyS key(int k) { return KeyS(k); }
  static int key_int(const KeyS& k) { return k.pad == chk(k.k) ? k.k : -999; }
  static ValS val(int64_t id) { return ValS(id); }
  static void drop_val(const ValS&) {}
  template <class A> static int64_t acc_id(A& a) { return checked((*a).id, (*a).c); }
  template <class P> static int64_t pair_id(P&& p) { return checked(p.second.id, p.second.c); }
  template <class A> static void after_extract(A&) {}
};

struct POp {
  uint8_t kind;
  int key;
  int64_t value;
};

// The ways a client can end up holding an iterator (C11 covers the handle as well as the traversal): copy elision, move assignment onto
// a default-constructed / reset iterator, move construction from a named iterator. The bucket lock must travel with the handle.
template <class It, class F>
It obtain_iterator(int form, F&& get) {
  switch (form % 3) {
  case 0: return get();
  case 1: {
    It it;
    it = get(); // move assignment onto an empty iterator
    return it;
  }
  default: {
    It first = get();
    It it(std::move(first)); // move construction; `first` is destroyed as a moved-from iterator
    return it;
  }
  }
}

template <class M>
void exec_op(typename M::Map& map, const POp& p, OpRec& o) {
  using Map = typename M::Map;
  typename Map::accessor acc;
  switch (p.kind) {
  case V_EMPLACE: {
    auto v = M::val(p.value);
    o.r = map.emplace(M::key(p.key), v);
    if (!o.r)
      M::drop_val(v);
    break;
  }
  case V_GET_OR_EMPLACE:
  case V_GET_OR_EMPLACE_LAZY: {
    o.kind = V_GET_OR_EMPLACE_LAZY;
    int calls = 0;
    int64_t id = p.value;
    auto res = map.get_or_emplace_lazy(M::key(p.key), [&calls, id]() {
      ++calls;
      return M::val(id);
    });
    o.r = res.second;
    o.r2 = M::acc_id(res.first);
    if (calls > 1 || (o.r && calls != 1) || (!o.r && calls != 0))
      o.r2 = -997;
    break;
  }
  case V_ERASE: o.r = map.erase(M::key(p.key)); break;
  case V_EXTRACT: {
    o.r = map.extract(M::key(p.key), acc);
    if (o.r) {
      o.r2 = M::acc_id(acc);
      M::after_extract(acc);
    }
    break;
  }
  case V_TRYGET: {
    o.r = map.try_get_value(M::key(p.key), acc);
    if (o.r)
      o.r2 = M::acc_id(acc);
    break;
  }
  case V_FIND: {
    using It = decltype(map.find(M::key(p.key)));
    It it = obtain_iterator<It>((int)(p.key + p.value), [&] { return map.find(M::key(p.key)); });
    o.r = it != map.end();
    if (o.r) {
      o.r2 = M::pair_id(*it);
      if (M::key_int((*it).first) != p.key)
        o.r2 = -999;
    }
    it.reset();
    break;
  }
  case V_FIND_ERASE_IT: {
    using It = decltype(map.find(M::key(p.key)));
    It it = obtain_iterator<It>((int)(p.key + p.value), [&] { return map.find(M::key(p.key)); });
    o.r = it != map.end();
    if (o.r) {
      o.r2 = M::pair_id(*it);
      if (M::key_int((*it).first) != p.key)
        o.r2 = -999;
      map.erase(it);
    }
    it.reset();
    break;
  }
  }
}

struct Yield {
  int key;
  int64_t value;
};
struct Traversal {
  std::vector<Yield> yields;
  std::vector<OpRec> erases; // erase(iterator) operations performed during the traversal (part of the history)
  std::string error;
  uint64_t start = 0, end = 0;
};

template <class M>
void traverse(typename M::Map& map, Traversal& tr, int erase_mask, const Recorder& rec, int tid) {
  tr.start = xrt::stamp();
  int n = 0;
  using It = decltype(map.begin());
  It it = obtain_iterator<It>(erase_mask + tid, [&] { return map.begin(); });
  while (it != map.end()) {
    int k = M::key_int((*it).first);
    int64_t v = M::pair_id(*it);
    tr.yields.push_back({k, v});
    if (erase_mask & (1 << (n % 8))) {
      OpRec o;
      o.thread = (uint8_t)tid;
      o.kind = V_FIND_ERASE_IT;
      o.a = k;
      o.b = 0;
      o.r = 1;
      o.r2 = v;
      rec.begin(o);
      map.erase(it); // leaves the iterator on the next not-yet-visited element
      rec.end(o);
      tr.erases.push_back(o);
    } else
      ++it;
    if (++n > 200) {
      tr.error = "traversal does not terminate (more than 200 yields)";
      break;
    }
  }
  it.reset();
  tr.end = xrt::stamp();
}

template <class M>
struct Worker {
  typename M::Map* map;
  std::vector<POp> prog;
  std::vector<OpRec> recs;
  bool weak;
  int tid;
  bool traverser = false;
  int erase_mask = 0;
  Traversal trav;
  bool prober = false;
  int nkeys = 0;
  int64_t probe_base = 0;
  std::string probe_error;
  std::map<int, int64_t>* content = nullptr; // prober: result of the final iteration
  std::string* iter_err = nullptr;
  std::function<void()> sequential; // runs a whole sequential program inside a managed thread (hang detection)
};

template <class M>
void worker_body(void* p) {
  auto* w = (Worker<M>*)p;
  Recorder rec{w->weak};
  if (w->traverser) {
    xrt::op_begin(100, false);
    traverse<M>(*w->map, w->trav, w->erase_mask, rec, w->tid);
    xrt::op_end();
    return;
  }
  if (w->sequential) {
    w->sequential();
    return;
  }
  if (w->prober) {
    // final content by iteration (inside a managed thread: a leaked bucket lock is then a detected hang)
    {
      int n = 0;
      for (auto it = w->map->begin(); it != w->map->end(); ++it) {
        int k = M::key_int((*it).first);
        int64_t v = M::pair_id(*it);
        xrt::Quiet q;
        if (w->content->count(k))
          *w->iter_err = fmt("final iteration yields key %d twice", k);
        (*w->content)[k] = v;
        if (++n > 200) {
          *w->iter_err = "final iteration does not terminate";
          break;
        }
      }
    }
    // no lost locks: every bucket must accept an update again
    for (int k = 1; k <= w->nkeys; ++k) {
      OpRec o;
      exec_op<M>(*w->map, POp{V_ERASE, k, 0}, o);
      OpRec o2;
      exec_op<M>(*w->map, POp{V_EMPLACE, k, w->probe_base + k}, o2);
      if (!o2.r)
        w->probe_error = fmt("probe emplace of key %d failed right after erasing it", k);
      OpRec o3;
      exec_op<M>(*w->map, POp{V_TRYGET, k, 0}, o3);
      if (!o3.r || o3.r2 != w->probe_base + k)
        w->probe_error = fmt("probe try_get_value of key %d returned %" PRId64 "/%" PRId64, k, o3.r, o3.r2);
    }
    return;
  }
  for (size_t i = 0; i < w->prog.size(); ++i) {
    const POp& op = w->prog[i];
    OpRec& o = w->recs[i];
    o.thread = (uint8_t)w->tid;
    o.kind = op.kind;
    o.a = op.key;
    o.b = op.value;
    rec.begin(o);
    xrt::op_begin(op.kind, op.kind == V_TRYGET);
    exec_op<M>(*w->map, op, o);
    xrt::op_end();
    rec.end(o);
  }
}

template <class M>
void run_vyukov(int mode, int capacity, const ExecCtx& ctx, ExecOut& out) { // mode 0 lin, 1 iterators
  using Map = typename M::Map;
  Rng rng(ctx.seed);
  const bool big = capacity >= 128;
  g_hash_mode = big ? (rng.chance(3, 4) ? 3 : 2) : (int)rng.below(3);
  const int nkeys = big ? rng.range(4, 8) : rng.range(2, 5);
  Map* map;
  {
    xrt::quiet_end();
    map = new Map((size_t)capacity);
    xrt::quiet_begin();
  }
  int64_t next_val = 1;
  History h;
  h.weak = ctx.weak;
  Recorder mrec{ctx.weak};
  auto main_op = [&](uint8_t kind, int key, int64_t v) {
    OpRec o;
    o.thread = 0;
    o.kind = kind;
    o.a = key;
    o.b = v;
    mrec.begin(o);
    xrt::quiet_end();
    exec_op<M>(*map, POp{kind, key, v}, o);
    xrt::quiet_begin();
    mrec.end(o);
    h.ops.push_back(o);
  };
  // shaped programs (a third of the iterator executions on maps with extension buckets): every key is present, so the later keys live
  // in extension items; one of those is removed again (its pooled item keeps the stale key), the traverser erases at the late
  // positions of the bucket (extension items, the last one in particular) and the readers look for the removed / the late keys
  const bool shaped = big && mode == 1 && nkeys >= 5 && rng.chance(1, 3);
  int stale_key = 0;
  if (shaped) {
    for (int k = 1; k <= nkeys; ++k)
      main_op(V_EMPLACE, k, next_val++);
    stale_key = rng.range(4, nkeys);
    main_op(rng.chance(1, 2) ? V_EXTRACT : V_ERASE, stale_key, 0);
    if (rng.chance(1, 3)) {
      int k2 = rng.range(4, nkeys);
      if (k2 != stale_key)
        main_op(V_ERASE, k2, 0);
    }
    counters().add("shaped_extension_programs");
  } else
  for (int k = 1; k <= nkeys; ++k)
    if (rng.chance(big ? 3 : 1, big ? 4 : 2))
      main_op(V_EMPLACE, k, next_val++);
  int nthreads = rng.range(2, 4);
  std::vector<Worker<M>> workers((size_t)nthreads);
  for (int t = 0; t < nthreads; ++t) {
    Worker<M>& w = workers[(size_t)t];
    w.map = map;
    w.weak = ctx.weak;
    w.tid = t + 1;
    if (mode == 1 && t == 0) {
      w.traverser = true;
      w.erase_mask = rng.chance(1, 2) ? (int)rng.below(256) : 0;
      if (shaped)
        w.erase_mask = rng.chance(1, 2) ? 0xF8 : (1 << rng.range(2, nkeys - 2)) | (rng.chance(1, 2) ? 1 << rng.range(2, nkeys - 2) : 0);
      continue;
    }
    int nops = rng.range(1, mode == 1 ? 5 : 6);
    bool reader_only = mode == 1 ? rng.chance(1, 2) : rng.chance(1, 4);
    for (int i = 0; i < nops; ++i) {
      uint32_t r = rng.below(100);
      uint8_t kind = r < 24 ? V_EMPLACE : r < 36 ? V_GET_OR_EMPLACE_LAZY : r < 54 ? V_ERASE : r < 64 ? V_EXTRACT : r < 84 ? V_TRYGET
                     : r < 92 ? V_FIND : V_FIND_ERASE_IT;
      if (reader_only)
        kind = V_TRYGET;
      int key = rng.range(1, nkeys);
      if (shaped && rng.chance(2, 3))
        key = rng.chance(1, 2) ? stale_key : rng.range(4, nkeys);
      w.prog.push_back(POp{kind, key, next_val++});
    }
    w.recs.resize(w.prog.size());
  }
  std::vector<xrt::ThreadSpec> specs((size_t)nthreads);
  for (int t = 0; t < nthreads; ++t) {
    specs[(size_t)t].fn = worker_body<M>;
    specs[(size_t)t].arg = &workers[(size_t)t];
    if (rng.chance(1, 4))
      specs[(size_t)t].start_delay = rng.below(100);
  }
  xrt::run(ctx.runcfg(), specs.data(), nthreads);
  for (auto& w : workers) {
    for (auto& o : w.recs)
      h.ops.push_back(o);
    for (auto& o : w.trav.erases)
      h.ops.push_back(o);
  }
  // final content via iteration and the lost-lock probe run in a managed thread (finisher)
  std::map<int, int64_t> content;
  std::string iter_err, probe_error;
  uint64_t fcall = xrt::stamp();
  xrt::VC fvc{};
  if (ctx.weak)
    xrt::clock(&fvc);
  if (!xrt::has_violation()) {
    Worker<M> pw;
    pw.map = map;
    pw.weak = ctx.weak;
    pw.tid = 1;
    pw.prober = true;
    pw.nkeys = nkeys;
    pw.probe_base = 100000;
    pw.content = &content;
    pw.iter_err = &iter_err;
    xrt::ThreadSpec ps;
    ps.fn = worker_body<M>;
    ps.arg = &pw;
    xrt::run(ctx.runcfg(77), &ps, 1);
    probe_error = pw.probe_error;
  }
  uint64_t fret = xrt::stamp();
  if (ctx.weak)
    xrt::clock(&fvc);
  for (auto& kv : content)
    if (kv.first < 1 || kv.first > nkeys)
      iter_err = fmt("final iteration yields key %d which was never inserted", kv.first);
  for (int k = 1; k <= nkeys; ++k) {
    OpRec o;
    o.thread = 0;
    o.kind = V_FINAL;
    o.a = k;
    o.r = content.count(k) ? 1 : 0;
    o.r2 = o.r ? content[k] : 0;
    o.call = fcall;
    o.ret = fret;
    o.cvc = fvc;
    o.rvc = fvc;
    o.done = true;
    h.ops.push_back(o);
  }
  {
    xrt::quiet_end();
    delete map;
    xrt::quiet_begin();
  }
  compute_overlaps(h);
  out.hist_hash = history_hash(h) ^ mix64((uint64_t)g_hash_mode, (uint64_t)capacity);
  out.nontrivial = history_nontrivial(h);
  out.history = fmt("capacity=%d hash_mode=%d keys=%d\n", capacity, g_hash_mode, nkeys) + history_str(h, op_str);
  counters().add("ops", h.ops.size());
  for (auto& w : workers)
    if (w.traverser) {
      counters().add("traversals");
      counters().add("traversal_yields", w.trav.yields.size());
      counters().add("iterator_erases", w.trav.erases.size());
      out.history += fmt("T%d traversal [%" PRIu64 ",%" PRIu64 "]: ", w.tid, w.trav.start, w.trav.end);
      for (auto& y : w.trav.yields)
        out.history += fmt("(%d,%" PRId64 ") ", y.key, y.value);
      out.history += "\n";
    }
  for (auto& o : h.ops)
    if (o.kind == V_TRYGET && o.overlap && o.thread)
      counters().add("lockfree_reads_under_overlap");
  if (xrt::has_violation())
    return;
  const char* P = mode == 1 ? "C11" : "C10";
  if (!iter_err.empty()) {
    out.fail(P, "final-iteration", iter_err);
    return;
  }
  if (!probe_error.empty()) {
    out.fail("C11", "map-unusable-after-iteration", probe_error);
    return;
  }
  for (auto& o : h.ops)
    if (o.r2 <= -997) {
      out.fail(P, o.r2 == -997 ? "factory-calls" : "torn-or-foreign-value",
               op_str(o) + (o.r2 == -997 ? ": factory call count wrong" : ": value/key checksum mismatch or value of another key"));
      return;
    }
  for (auto& w : workers)
    if (w.traverser) {
      if (!w.trav.error.empty()) {
        out.fail("C11", "iterator-misbehaves", w.trav.error);
        return;
      }
      std::set<int> seen;
      for (auto& y : w.trav.yields) {
        if (y.value <= -997 || y.key < 1 || y.key > nkeys) {
          out.fail("C11", "yield-invented", fmt("traversal yields (%d,%" PRId64 ")", y.key, y.value));
          return;
        }
        if (!seen.insert(y.key).second) {
          out.fail("C11", "yield-twice", fmt("traversal yields key %d twice", y.key));
          return;
        }
      }
    }
  KeyModel model;
  for (int k = 1; k <= nkeys; ++k) {
    History hk;
    hk.weak = h.weak;
    for (auto& o : h.ops)
      if (o.a == k)
        hk.ops.push_back(o);
    WglResult wr = wgl_check(hk, model, ABSENT);
    counters().add("wgl_nodes", wr.nodes);
    if (wr.verdict == V_INCONCLUSIVE) {
      out.inconclusive = true;
      counters().add("wgl_inconclusive");
    } else if (wr.verdict == V_VIOLATION) {
      std::string pre;
      for (int i : wr.best_prefix)
        pre += op_str(hk.ops[(size_t)i]) + "; ";
      out.fail(P, "not-linearizable", fmt("operations on key %d are not linearizable w.r.t. a sequential map; longest legal prefix: ", k) + pre);
      return;
    }
  }
}

// sequential differential test against std::map on the main thread (C10 / C11 part (i)): no scheduling involved
template <class M>
void run_sequential(int capacity, const ExecCtx& ctx, ExecOut& out) {
  using Map = typename M::Map;
  Rng rng(ctx.seed);
  g_hash_mode = capacity >= 128 ? (rng.chance(3, 4) ? 3 : 2) : (int)rng.below(3);
  int nkeys = capacity >= 128 ? rng.range(5, 12) : rng.range(3, 9);
  // a quarter of the executions on the large tables: enough colliding keys (and operations) to exhaust the extension pool, so that the
  // table grows while its buckets carry extension items - all keys in one bucket for ever (mode 2), in one bucket up to 128 buckets
  // (mode 3) or up to 256 buckets (mode 4): re-created extension items in the new block, extension items that move back into a bucket
  const bool crowd = capacity >= 128 && rng.chance(1, 4);
  if (crowd) {
    nkeys = rng.range(14, 40);
    g_hash_mode = 2 + (int)rng.below(3);
  }
  std::map<int, int64_t> ref;
  Map* map;
  xrt::quiet_end();
  map = new Map((size_t)capacity);
  xrt::quiet_begin();
  int64_t next_val = 1;
  std::string log, err;
  int nops = crowd ? rng.range(80, 200) : rng.range(20, 60);
  if (crowd)
    counters().add("seq_crowded_executions");
  size_t max_present = 0;
  const int prefill = crowd ? rng.range(8, 13) : 0;
  Worker<M> sw;
  sw.sequential = [&]() {
  xrt::Quiet quiet_monitor; // the reference model and the log are monitor state; library calls are bracketed below
  for (int i = 0; i < nops && err.empty(); ++i) {
    uint32_t r = rng.below(100);
    int k = rng.range(1, nkeys);
    if (i < prefill) { // crowded executions start with 8-13 colliding keys present (emplace, judged like every other operation)
      r = 0;
      k = i + 1;
    }
    OpRec o;
    if (r < 70) {
      uint8_t kind = r < 25 ? V_EMPLACE : r < 33 ? V_GET_OR_EMPLACE_LAZY : r < 45 ? V_ERASE : r < 52 ? V_EXTRACT : r < 60 ? V_TRYGET
                     : r < 64 ? V_FIND : V_FIND_ERASE_IT;
      o.kind = kind;
      o.a = k;
      o.b = next_val;
      log += fmt("%s(%d,%" PRId64 ") ", vname[kind], k, next_val);
      xrt::quiet_end();
      exec_op<M>(*map, POp{kind, k, next_val++}, o);
      xrt::quiet_begin();
      bool present = ref.count(k) != 0;
      max_present = std::max(max_present, ref.size());
      int64_t cur = present ? ref[k] : 0;
      bool ok = true;
      switch (o.kind) {
      case V_EMPLACE:
        ok = o.r == !present;
        if (o.r)
          ref[k] = o.b;
        break;
      case V_GET_OR_EMPLACE_LAZY:
        ok = o.r == !present && o.r2 == (present ? cur : o.b);
        if (o.r)
          ref[k] = o.b;
        break;
      case V_ERASE:
        ok = o.r == present;
        ref.erase(k);
        break;
      case V_EXTRACT:
      case V_FIND_ERASE_IT:
        ok = o.r == present && (!present || o.r2 == cur);
        ref.erase(k);
        break;
      case V_TRYGET:
      case V_FIND: ok = o.r == present && (!present || o.r2 == cur); break;
      }
      if (!ok)
        err = fmt("operation %d %s(k=%d) returned %" PRId64 "/%" PRId64 " but the reference map has %s%" PRId64, i, vname[o.kind], k, o.r,
                  o.r2, present ? "" : "no entry, not ", cur);
    } else {
      // full traversal, erasing some of the elements through the iterator
      int mask = r < 85 ? (int)rng.below(256) : 0;
      log += fmt("traverse(mask=%x) ", mask);
      std::set<int> seen;
      int n = 0;
      xrt::quiet_end();
      auto it = map->begin();
      while (it != map->end() && err.empty()) {
        int kk = M::key_int((*it).first);
        int64_t vv = M::pair_id(*it);
        bool erase_it = (mask & (1 << (n % 8))) != 0;
        {
          xrt::Quiet q;
          if (!ref.count(kk) || ref[kk] != vv)
            err = fmt("traversal yields (%d,%" PRId64 ") which is not in the reference map", kk, vv);
          else if (!seen.insert(kk).second)
            err = fmt("traversal yields key %d twice", kk);
          if (erase_it) {
            ref.erase(kk);
            seen.erase(kk);
            seen.insert(-kk); // erased: must not be yielded again
          }
          if (++n > 300)
            err = "traversal does not terminate";
        }
        if (erase_it)
          map->erase(it);
        else
          ++it;
      }
      it.reset();
      xrt::quiet_begin();
      if (err.empty())
        for (auto& kv : ref)
          if (!seen.count(kv.first))
            err = fmt("traversal did not yield (%d,%" PRId64 ")", kv.first, kv.second);
    }
  }
  };
  xrt::ThreadSpec ss;
  ss.fn = worker_body<M>;
  ss.arg = &sw;
  xrt::run(ctx.runcfg(5), &ss, 1);
  xrt::quiet_end();
  delete map;
  xrt::quiet_begin();
  out.hist_hash = hash_str(log.c_str()) ^ mix64((uint64_t)capacity, (uint64_t)g_hash_mode);
  out.nontrivial = true;
  out.history = fmt("capacity=%d hash_mode=%d keys=%d: ", capacity, g_hash_mode, nkeys) + log;
  counters().add("sequential_ops", (uint64_t)nops);
  if (crowd && max_present >= 14)
    counters().add("seq_growth_with_extension_items"); // 14 keys in one bucket of a 128-bucket table: 3 + 10 extension items + 1 = grow
  if (xrt::has_violation())
    return;
  if (!err.empty())
    out.fail(err.find("travers") != std::string::npos ? "C11" : "C10", "differs-from-reference-map", err);
}

struct Cfg {
  std::string name;
  std::function<void(const ExecCtx&, ExecOut&)> run;
};
std::vector<Cfg>& table() {
  static std::vector<Cfg>* t = new std::vector<Cfg>();
  return *t;
}
template <class M>
void reg() {
  for (int cap : {1, 2, 4, 128, 256}) {
    table().push_back({fmt("lin_%s_c%d", M::name, cap), [cap](const ExecCtx& c, ExecOut& o) { run_vyukov<M>(0, cap, c, o); }});
    table().push_back({fmt("iter_%s_c%d", M::name, cap), [cap](const ExecCtx& c, ExecOut& o) { run_vyukov<M>(1, cap, c, o); }});
  }
  for (int cap : {2, 128})
    table().push_back({fmt("seq_%s_c%d", M::name, cap), [cap](const ExecCtx& c, ExecOut& o) { run_sequential<M>(cap, c, o); }});
}
} // namespace

int main(int argc, char** argv) {
  xrt::quiet_begin();
  reg<ModeTT>();
  reg<ModeTM>();
  reg<ModeSM>();
  reg<ModeTS>();
  reg<ModeSS>();
  static std::string name = std::string("vyukov.") + xv::RNAME;
  ScenarioDef def;
  def.name = name.c_str();
  for (auto& c : table())
    def.configs.push_back(c.name);
  def.run = [](const std::string& cfg, const ExecCtx& ctx, ExecOut& out) {
    for (auto& c : table())
      if (c.name == cfg) {
        c.run(ctx, out);
        return;
      }
  };
  return scenario_main(argc, argv, def);
}
