// Scenario "deque": C12 — chase_work_stealing_deque hands out every pushed item exactly once (owner LIFO, thieves FIFO),
// across growth of the array at arbitrary index offsets.
#include "harness.h"

#include <xenium/chase_work_stealing_deque.hpp>
#include <xenium/detail/fixed_size_circular_array.hpp>

using namespace hz;

namespace {
enum DKind : uint8_t { D_PUSH = 1, D_POP = 2, D_STEAL = 3 };

struct Item {
  int64_t id;
  uint64_t canary;
};

struct DequeModel {
  using State = std::vector<int64_t>; // front = top (oldest), back = bottom
  int64_t fixed_capacity = -1;
  bool weak = false; // C03: under weak executions failed operations of worker threads are not judged (see QueueModel)
  static void serialize(const State& s, std::string& out) {
    out.append(reinterpret_cast<const char*>(s.data()), s.size() * sizeof(int64_t));
  }
  bool apply(State& s, const OpRec& op) const {
    if (weak && !op.r && op.thread != 0)
      return true;
    switch (op.kind) {
    case D_PUSH:
      if (op.r) {
        if (fixed_capacity >= 0 && (int64_t)s.size() >= fixed_capacity)
          return false;
        s.push_back(op.a);
        return true;
      }
      return fixed_capacity >= 0 && (int64_t)s.size() >= fixed_capacity;
    case D_POP:
      if (op.r) {
        if (s.empty() || s.back() != op.r2)
          return false;
        s.pop_back();
        return true;
      }
      return s.empty();
    case D_STEAL:
      if (op.r) {
        if (s.empty() || s.front() != op.r2)
          return false;
        s.erase(s.begin());
        return true;
      }
      return s.empty() || op.overlap; // a steal may fail when it loses a race
    }
    return false;
  }
};

std::string op_str(const OpRec& o) {
  std::string s = fmt("T%d ", o.thread);
  if (o.kind == D_PUSH)
    s += fmt("push(%" PRId64 ")->%s", o.a, o.r ? "ok" : "FULL");
  else if (o.kind == D_POP)
    s += o.r ? fmt("pop()->%" PRId64, o.r2) : std::string("pop()->EMPTY");
  else
    s += o.r ? fmt("steal()->%" PRId64, o.r2) : std::string("steal()->FAIL");
  s += fmt(" [%" PRIu64 ",%" PRIu64 "]", o.call, o.ret);
  return s;
}

struct POp {
  uint8_t kind;
  int64_t id;
};

template <class D>
struct Worker {
  D* d;
  std::vector<POp> prog;
  std::vector<OpRec> recs;
  bool weak;
  int tid;
  std::vector<Item*>* items; // id -> item (owner allocates)
};

template <class D>
void exec_op(D* d, const POp& p, OpRec& o, bool weak, int tid, std::vector<Item*>* items, std::string* err) {
  Recorder rec{weak};
  o.thread = (uint8_t)tid;
  o.kind = p.kind;
  if (p.kind == D_PUSH) {
    o.a = p.id;
    Item* it = new Item{p.id, 0xD00D0000u + (uint64_t)p.id};
    {
      xrt::Quiet q;
      (*items)[(size_t)p.id] = it;
    }
    rec.begin(o);
    xrt::op_begin(D_PUSH, true);
    bool ok = d->try_push(it);
    xrt::op_end();
    rec.end(o);
    o.r = ok;
  } else {
    Item* out = nullptr;
    rec.begin(o);
    xrt::op_begin(p.kind, true);
    bool ok = p.kind == D_POP ? d->try_pop(out) : d->try_steal(out);
    xrt::op_end();
    rec.end(o);
    o.r = ok;
    if (ok) {
      // validate the pointer before dereferencing it: a wrong slot may hand out garbage
      bool known = false;
      {
        xrt::Quiet q;
        for (Item* it : *items)
          if (it == out && it != nullptr)
            known = true;
      }
      if (!known) {
        o.r2 = -1;
        xrt::Quiet q;
        if (err->empty())
          *err = fmt("%s returned pointer %p which is not an item that was pushed", p.kind == D_POP ? "try_pop" : "try_steal", (void*)out);
      } else {
        o.r2 = out->id;
        if (out->canary != 0xD00D0000u + (uint64_t)out->id) {
          xrt::Quiet q;
          if (err->empty())
            *err = fmt("item %" PRId64 " has a corrupted canary", out->id);
        }
      }
    }
  }
}

std::string g_err;

template <class D>
void worker_body(void* p) {
  auto* w = (Worker<D>*)p;
  for (size_t i = 0; i < w->prog.size(); ++i)
    exec_op(w->d, w->prog[i], w->recs[i], w->weak, w->tid, w->items, &g_err);
}

template <class D, int64_t FixedCap, int64_t Cap>
void run_deque(const ExecCtx& ctx, ExecOut& out) {
  Rng rng(ctx.seed);
  g_err.clear();
  D* d;
  {
    xrt::quiet_end();
    d = new D();
    xrt::quiet_begin();
  }
  std::vector<Item*> items(256, nullptr);
  // ---- owner-only prefix: advance top/bottom by an arbitrary offset (growth then happens at arbitrary index offsets)
  uint64_t offset = rng.chance(1, 4) ? 0 : rng.below((uint32_t)(64 * Cap));
  bool prefix_ok = true;
  {
    xrt::quiet_end();
    Item pre{-1, 0};
    for (uint64_t i = 0; i < offset && prefix_ok; ++i) {
      Item* o = nullptr;
      if (!d->try_push(&pre))
        prefix_ok = false;
      bool ok = rng.chance(1, 2) ? d->try_steal(o) : d->try_pop(o);
      if (!ok || o != &pre)
        prefix_ok = false;
    }
    xrt::quiet_begin();
  }
  if (!prefix_ok) {
    out.fail("C12", "prefix-mismatch", fmt("sequential push/steal pairs failed after at most %" PRIu64 " pairs", offset));
    return;
  }
  // ---- programs
  int nthieves = rng.range(1, 3);
  History h;
  h.weak = ctx.weak;
  int64_t next_id = 1;
  std::vector<Worker<D>> workers((size_t)nthieves + 1);
  Worker<D>& owner = workers[0];
  int owner_ops = rng.range(3, 11);
  int flavour = (int)rng.below(3); // 0 push-heavy (growth), 1 mixed, 2 last-item races
  for (int i = 0; i < owner_ops; ++i) {
    bool push = flavour == 0 ? rng.chance(4, 5) : flavour == 1 ? rng.chance(1, 2) : (i % 2 == 0);
    owner.prog.push_back(POp{(uint8_t)(push ? D_PUSH : D_POP), push ? next_id++ : 0});
  }
  for (int t = 1; t <= nthieves; ++t) {
    int n = rng.range(1, 5);
    for (int i = 0; i < n; ++i)
      workers[(size_t)t].prog.push_back(POp{D_STEAL, 0});
  }
  // a few items pushed by the owner (main acts as the owner before the threads start)
  int npre = (int)rng.below((uint32_t)Cap + 2);
  for (int i = 0; i < npre; ++i) {
    OpRec o;
    xrt::quiet_end();
    exec_op(d, POp{D_PUSH, next_id++}, o, ctx.weak, 0, &items, &g_err);
    xrt::quiet_begin();
    h.ops.push_back(o);
  }
  std::vector<xrt::ThreadSpec> specs(workers.size());
  for (size_t t = 0; t < workers.size(); ++t) {
    Worker<D>& w = workers[t];
    w.d = d;
    w.weak = ctx.weak;
    w.tid = (int)t + 1;
    w.items = &items;
    w.recs.resize(w.prog.size());
    specs[t].fn = worker_body<D>;
    specs[t].arg = &w;
    if (t > 0 && rng.chance(1, 3))
      specs[t].start_delay = rng.below(100);
  }
  uint64_t cap_before = 0;
  (void)cap_before;
  xrt::run(ctx.runcfg(), specs.data(), (int)specs.size());
  for (auto& w : workers)
    for (auto& o : w.recs)
      h.ops.push_back(o);
  // ---- drain by the owner (main): alternate pop / steal
  int guard = 0;
  while (h.ops.size() < 62 && guard++ < 40) {
    OpRec o;
    xrt::quiet_end();
    exec_op(d, POp{(uint8_t)(rng.chance(1, 2) ? D_POP : D_STEAL), 0}, o, ctx.weak, 0, &items, &g_err);
    xrt::quiet_begin();
    h.ops.push_back(o);
    if (!o.r)
      break;
  }
  {
    xrt::quiet_end();
    delete d;
    xrt::quiet_begin();
  }
  compute_overlaps(h);
  out.hist_hash = history_hash(h) ^ mix64(offset, 77);
  out.nontrivial = history_nontrivial(h);
  out.history = fmt("prefix: %" PRIu64 " push/take pairs (top=bottom=%" PRIu64 ")\n", offset, offset) + history_str(h, op_str);
  counters().add("ops", h.ops.size());
  int pushes = 0;
  uint64_t steals_ok = 0, steals_fail_overlap = 0;
  for (auto& o : h.ops) {
    if (o.kind == D_PUSH && o.r)
      ++pushes;
    if (o.kind == D_STEAL && o.r && o.thread)
      ++steals_ok;
    if (o.kind == D_STEAL && !o.r && o.overlap)
      ++steals_fail_overlap;
  }
  if (FixedCap < 0 && pushes + 0 > Cap)
    counters().add("executions_with_growth");
  counters().add("successful_concurrent_steals", steals_ok);
  counters().add("failed_steals_under_overlap", steals_fail_overlap);
  counters().max("max_prefix_offset", offset);
  for (Item* it : items)
    delete it;
  if (xrt::has_violation())
    return;
  if (!g_err.empty()) {
    out.fail("C12", "invented-item", g_err);
    return;
  }
  DequeModel model;
  model.fixed_capacity = FixedCap;
  model.weak = ctx.weak;
  WglResult wr = wgl_check(h, model, DequeModel::State{});
  counters().add("wgl_nodes", wr.nodes);
  if (wr.verdict == V_INCONCLUSIVE) {
    out.inconclusive = true;
    counters().add("wgl_inconclusive");
  } else if (wr.verdict == V_VIOLATION) {
    std::string pre;
    for (int i : wr.best_prefix)
      pre += op_str(h.ops[(size_t)i]) + "; ";
    out.fail("C12", "not-linearizable", "no linearization w.r.t. the sequential deque; longest legal prefix: " + pre);
  }
}

struct Cfg {
  std::string name;
  std::function<void(const ExecCtx&, ExecOut&)> run;
};
std::vector<Cfg>& table() {
  static std::vector<Cfg>* t = new std::vector<Cfg>();
  return *t;
}
namespace xp = xenium::policy;
template <size_t N>
using Growing = xenium::chase_work_stealing_deque<Item, xp::capacity<N>>;
template <size_t N>
using Fixed = xenium::chase_work_stealing_deque<Item, xp::capacity<N>, xp::container<xenium::detail::fixed_size_circular_array<Item, N>>>;

template <size_t N>
void reg_both() {
  table().push_back({fmt("growing_c%zu", N), [](const ExecCtx& c, ExecOut& o) { run_deque<Growing<N>, -1, (int64_t)N>(c, o); }});
  table().push_back({fmt("fixed_c%zu", N), [](const ExecCtx& c, ExecOut& o) { run_deque<Fixed<N>, (int64_t)N, (int64_t)N>(c, o); }});
}
} // namespace

int main(int argc, char** argv) {
  xrt::quiet_begin();
  reg_both<2>();
  reg_both<4>();
  reg_both<8>();
  ScenarioDef def;
  def.name = "deque";
  for (auto& c : table())
    def.configs.push_back(c.name);
  def.run = [](const std::string& cfg, const ExecCtx& ctx, ExecOut& out) {
    for (auto& c : table())
      if (c.name == cfg) {
        c.run(ctx, out);
        return;
      }
  };
  return scenario_main(argc, argv, def);
}
