// slots.cpp - C18: hazard pointer / hazard era slot accounting.
// Real guard_ptr operations of hazard_pointer / hazard_eras with static and dynamic allocation strategies, K in {1,2,3,5},
// run as managed threads under xrt. A per-thread model (which guards protect which node) decides, for every operation,
// whether bad_hazard_*_alloc must not / must be thrown; a registry flags nodes destroyed while the model says a guard of
// some thread protects them; the heap oracle and the race detector watch the guarded reads.
//   exh_*  : bounded-exhaustive sequences of guard operations on one thread from three start states (no / K-1 / K guards held)
//   run_*  : long random sequences on 1-2 holder threads, racing a thread that keeps replacing and retiring the nodes,
//            in two generations of threads (thread exit, control-block reuse)
#include "harness.h"

#include <xenium/reclamation/hazard_eras.hpp>
#include <xenium/reclamation/hazard_pointer.hpp>
#ifdef XV_RECL
  #include "reclaimers.h"
#endif

#include <new>
#include <sched.h>
#include <unordered_map>
#include <unordered_set>

using namespace hz;
namespace xr = xenium::reclamation;
namespace xp = xenium::policy;

namespace {

// property the oracles of this build report for: C18 (slot accounting, hazard_pointer / hazard_eras matrix) or, when built
// with -DXV_RECL=<n> for one reclaimer of the matrix, C15 (guard_ptr algebra: the same sequences, no slot limit applies)
const char* g_prop = "C18";

struct Registry { // only touched inside xrt::Quiet sections
  std::unordered_map<const void*, int> prot; // node -> number of model guards (over all holder threads) protecting it
  std::unordered_map<const void*, int> prot_acq; // ... of those: guards that acquired the node themselves (not copies of a guard)
  std::string kind, msg;
  std::unordered_set<const void*> probes_gone; // release probes that have been destroyed (by whichever thread)
  uint64_t created = 0, destroyed = 0;
  void err(const char* k, const std::string& m) {
    if (kind.empty()) {
      kind = k;
      msg = m;
    }
  }
  void clear() {
    prot.clear();
    prot_acq.clear();
    probes_gone.clear();
    kind.clear();
    msg.clear();
  }
};
Registry& reg() {
  static Registry* r = new Registry();
  return *r;
}
void prot_add(const void* n, bool by_copy) {
  if (n == nullptr)
    return;
  xrt::Quiet q;
  ++reg().prot[n];
  if (!by_copy)
    ++reg().prot_acq[n];
}
void prot_del(const void* n, bool by_copy) {
  if (n == nullptr)
    return;
  xrt::Quiet q;
  auto it = reg().prot.find(n);
  if (it != reg().prot.end() && --it->second <= 0)
    reg().prot.erase(it);
  if (!by_copy) {
    auto ia = reg().prot_acq.find(n);
    if (ia != reg().prot_acq.end() && --ia->second <= 0)
      reg().prot_acq.erase(ia);
  }
}

template <class R>
struct Node : R::template enable_concurrent_ptr<Node<R>, 1> {
  int64_t id;
  uint64_t canary;
  bool probe = false; // release probe: its destruction is recorded in the registry
  explicit Node(int64_t i) : id(i), canary(0xC0FFEE00u + (uint64_t)i) {
    xrt::Quiet q;
    ++reg().created;
  }
  ~Node() override {
    canary = 0xdead;
    xrt::Quiet q;
    ++reg().destroyed;
    if (probe)
      reg().probes_gone.insert(this);
    auto it = reg().prot.find(this);
    if (it != reg().prot.end() && it->second > 0) {
      auto ia = reg().prot_acq.find(this);
      int acq = ia == reg().prot_acq.end() ? 0 : ia->second;
      // "-by-copy": every protecting guard got its protection by copying another guard_ptr whose own protection has ended
      reg().err(acq > 0 ? "destroyed-while-guarded" : "destroyed-while-guarded-by-copy",
                fmt("node %" PRId64 " was destroyed while %d guard_ptr(s) protect it (%d of them acquired it themselves)", id, it->second, acq));
    }
  }
};

enum SOp : uint8_t {
  O_ACQUIRE, O_ACQ_IF_EQ, O_ACQ_IF_NE, O_RESET, O_COPY_ASSIGN, O_MOVE_ASSIGN, O_SWAP, O_COPY_CTOR, O_MOVE_CTOR, O_CTOR_MP,
  O_SELF, O_DEREF, O_BUMP, O_NOPS
};
const char* sop_name[] = {"acquire", "acquire_if_equal", "acquire_if_equal(other)", "reset", "copy=", "move=", "swap", "copy-ctor",
                          "move-ctor", "ctor(marked_ptr)", "self=", "deref", "bump-era"};
struct SInstr {
  uint8_t op, i, j, c;
};
std::string instr_str(const SInstr& s) {
  switch (s.op) {
  case O_ACQUIRE:
  case O_ACQ_IF_EQ:
  case O_ACQ_IF_NE: return fmt("%s(g%d, cell%d)", sop_name[s.op], s.i, s.c);
  case O_RESET:
  case O_SELF:
  case O_DEREF: return fmt("%s(g%d)", sop_name[s.op], s.i);
  case O_BUMP: return "bump-era";
  default: return fmt("%s(g%d <- g%d)", sop_name[s.op], s.i, s.j);
  }
}

constexpr int MAXG = 12;
constexpr int NCELLS = 4; // exhaustive mode: cell0 / cell1 hold nodes (cell1 with mark bit), cell2 is null, cell3 is a marked null pointer

template <class R, int K, bool Dynamic, bool IsHP, int NG = K + 2>
struct Env {
  using N = Node<R>;
  using CPtr = typename R::template concurrent_ptr<N, 1>; // one mark bit: marked and marked-null pointers are part of the game
  using MPtr = typename CPtr::marked_ptr;
  using GPtr = typename CPtr::guard_ptr;
  static constexpr int G = NG; // K + 2 by default; the wide_ configurations (dynamic strategy) use up to 3K + 2 guards: several growth steps
  static_assert(G <= MAXG, "too many guards");

  struct Shared {
    CPtr cell[NCELLS];
    std::atomic<int64_t> next_id{1};
    std::atomic<int> retirers_done{0}; // release probe: the holder waits until the retiring threads of its generation are done
  };

  struct Holder {
    Shared* sh = nullptr;
    int tid = 0;
    alignas(GPtr) unsigned char store[MAXG][sizeof(GPtr)];
    bool live[MAXG] = {};
    N* m[MAXG] = {}; // model: what guard k protects
    bool mc[MAXG] = {}; // ... and whether that protection was established by copying another guard
    std::string trace; // last operations (for the message)
    uint64_t throws = 0, ops = 0, full_states = 0, over_k_states = 0;
    bool failed = false;
    bool concurrent = false; // other threads retire nodes while this holder runs

    GPtr& g(int k) { return *reinterpret_cast<GPtr*>(store[k]); }
    int protecting(int except) const {
      int p = 0;
      for (int k = 0; k < G; ++k)
        if (k != except && m[k] != nullptr)
          ++p;
      return p;
    }
    void fail(const char* kind, const std::string& what) {
      if (failed)
        return;
      failed = true;
      xrt::Quiet q;
      reg().err(kind, what + " | thread " + std::to_string(tid) + " K=" + std::to_string(K) + (Dynamic ? " dynamic" : " static") +
                        " last ops: " + trace);
    }
    void set_model(int k, N* n, bool by_copy = false) {
      if (m[k] == n && (n == nullptr || mc[k] == by_copy))
        return;
      prot_del(m[k], mc[k]);
      m[k] = n;
      mc[k] = by_copy && n != nullptr;
      prot_add(n, mc[k]);
    }
    // the slot (and with it the protection) travels from guard j to guard i
    void move_model(int i, int j) {
      N* src = m[j];
      bool c = mc[j];
      prot_add(src, c);
      prot_del(m[i], mc[i]);
      m[i] = src;
      mc[i] = c && src != nullptr;
      prot_del(m[j], mc[j]);
      m[j] = nullptr;
      mc[j] = false;
    }
    void init() {
      for (int k = 0; k < G; ++k) {
        ::new (store[k]) GPtr();
        live[k] = true;
        m[k] = nullptr;
      }
    }
    void fini() {
      for (int k = 0; k < G; ++k) {
        prot_del(m[k], mc[k]);
        m[k] = nullptr;
        mc[k] = false;
        if (live[k])
          g(k).~GPtr();
        live[k] = false;
      }
    }
    void reset_all() {
      for (int k = 0; k < G; ++k) {
        prot_del(m[k], mc[k]);
        m[k] = nullptr;
        mc[k] = false;
        g(k).reset();
      }
    }

    // Runs `f` (the library call). `target`: the guard that may need a new slot; `drop_first`: model value of the target is given
    // up before the call (assignment / acquire overwrite it, constructors destroyed the old guard). Returns true if it threw.
    template <class F>
    bool attempt(const SInstr& in, int target, bool target_is_fresh, F&& f, N* target_old = nullptr) {
      ++ops;
      const int others = protecting(target);
      N* before[MAXG];
      for (int k = 0; k < G; ++k)
        before[k] = m[k];
      if (target >= 0)
        before[target] = target_old;
      if (others >= K)
        ++full_states;
      if (others > K)
        ++over_k_states;
      bool threw = false, wrong_type = false;
      xrt::op_begin(in.op, true);
      try {
        f();
      } catch (const xr::bad_hazard_pointer_alloc&) {
        threw = true;
        wrong_type = !IsHP;
      } catch (const xr::bad_hazard_era_alloc&) {
        threw = true;
        wrong_type = IsHP;
      }
      xrt::op_end();
      if (!threw)
        return false;
      ++throws;
      if (wrong_type)
        fail("wrong-exception", instr_str(in) + " threw the exception type of the other reclaimer");
      if (Dynamic)
        fail("dynamic-strategy-threw", instr_str(in) + " threw although no slot limit applies (dynamic strategy / reclaimer without slots)");
      else if (others < K)
        fail("spurious-exhaustion",
             instr_str(in) + fmt(" threw although only %d other guard_ptr(s) of this thread protect something (K=%d): a slot leaked or is held by an empty guard", others, K));
      // everything else must be untouched and still protecting
      for (int k = 0; k < G; ++k) {
        if (k == target && target_is_fresh)
          continue; // not constructed
        if (!live[k])
          continue;
        N* now = g(k).get();
        if (k == target) {
          // the guard that could not get a slot: either unchanged or empty, but never a new unprotected pointer
          if (now != before[k] && now != nullptr)
            fail("guard-changed-by-failed-op", instr_str(in) + " threw and left its target guard with a different, unprotected pointer");
          else if (now == nullptr)
            set_model(k, nullptr);
        } else if (now != before[k])
          fail("guard-changed-by-failed-op", instr_str(in) + fmt(" threw and changed guard g%d", k));
      }
      return true;
    }

    // HP static: exactly K slots, one per protecting guard - an operation that needs one more must throw
    void expect_throw_if_full(const SInstr& in, int target, bool needs_slot, bool threw) {
      if (!IsHP || Dynamic || threw || !needs_slot)
        return;
      if (protecting(target) >= K)
        fail("no-exception-beyond-K", instr_str(in) + fmt(" succeeded although %d other guard_ptrs already use all K=%d hazard pointers", protecting(target), K));
    }

    void check_value(const SInstr& in, int k, N* expect) {
      if (g(k).get() != expect)
        fail("guard-value", instr_str(in) + fmt(": guard g%d holds %p, model expects %p", k, (void*)g(k).get(), (void*)expect));
    }

    void deref_all() {
      for (int k = 0; k < G; ++k)
        if (live[k] && m[k] != nullptr) {
          N* n = g(k).get();
          if (n != m[k]) {
            fail("guard-value", fmt("guard g%d holds %p, model expects %p", k, (void*)n, (void*)m[k]));
            continue;
          }
          uint64_t c = n->canary;
          int64_t id = n->id;
          if (c != 0xC0FFEE00u + (uint64_t)id)
            fail("guarded-object-corrupt", fmt("node behind guard g%d reads id=%" PRId64 " canary=%" PRIx64, k, id, c));
        }
    }

    void step(const SInstr& in) {
      if (failed)
        return;
      if (trace.size() > 600)
        trace.erase(0, trace.size() - 400);
      trace += instr_str(in) + "; ";
      Shared& S = *sh;
      const int i = in.i % G, j = in.j % G;
      CPtr& cell = S.cell[in.c % NCELLS];
      switch (in.op) {
      case O_ACQUIRE: {
        N* old = m[i];
        // the old protection may be given up at any point inside acquire
        set_model(i, nullptr);
        bool threw = attempt(in, i, false, [&] { g(i).acquire(cell, std::memory_order_acquire); }, old);
        N* now = g(i).get();
        if (threw) {
          if (now == old)
            set_model(i, old); // unchanged (if it is non-null it must still be protected)
          break;
        }
        set_model(i, now);
        expect_throw_if_full(in, i, old == nullptr && now != nullptr, threw);
        break;
      }
      case O_ACQ_IF_EQ:
      case O_ACQ_IF_NE: {
        N* old = m[i];
        MPtr expected = cell.load(std::memory_order_relaxed);
        if (in.op == O_ACQ_IF_NE)
          expected = expected.get() != nullptr ? MPtr(nullptr) : MPtr(m[j] != nullptr ? m[j] : reinterpret_cast<N*>(this));
        set_model(i, nullptr);
        bool ok = false;
        bool threw = attempt(in, i, false, [&] { ok = g(i).acquire_if_equal(cell, expected, std::memory_order_acquire); }, old);
        N* now = g(i).get();
        if (threw) {
          if (now == old)
            set_model(i, old);
          break;
        }
        if (ok && MPtr(g(i)) != expected)
          fail("acquire-if-equal", instr_str(in) + " returned true but the guard differs from expected");
        if (!ok && now != nullptr)
          fail("acquire-if-equal", instr_str(in) + " returned false but left the guard non-empty");
        set_model(i, now);
        expect_throw_if_full(in, i, old == nullptr && now != nullptr, threw);
        break;
      }
      case O_RESET: {
        set_model(i, nullptr);
        attempt(in, i, false, [&] {
          g(i).reset();
          if (in.j & 1)
            g(i).reset();
        });
        check_value(in, i, nullptr);
        break;
      }
      case O_COPY_ASSIGN: {
        if (i == j)
          break;
        N* old = m[i];
        N* src = m[j];
        set_model(i, nullptr);
        bool threw = attempt(in, i, false, [&] { g(i) = g(j); }, old);
        if (threw) {
          if (g(i).get() == old)
            set_model(i, old);
          break;
        }
        set_model(i, src, true);
        check_value(in, i, src);
        check_value(in, j, src);
        expect_throw_if_full(in, i, old == nullptr && src != nullptr, threw);
        break;
      }
      case O_MOVE_ASSIGN: {
        if (i == j)
          break;
        N* src = m[j];
        set_model(i, nullptr);
        attempt(in, i, false, [&] { g(i) = std::move(g(j)); });
        // the slot travels with the pointer: protected throughout
        move_model(i, j);
        check_value(in, i, src);
        check_value(in, j, nullptr);
        break;
      }
      case O_SWAP: {
        if (i == j)
          break;
        N* a = m[i];
        N* b = m[j];
        attempt(in, i, false, [&] { g(i).swap(g(j)); }, a);
        m[i] = b;
        m[j] = a;
        std::swap(mc[i], mc[j]);
        check_value(in, i, b);
        check_value(in, j, a);
        break;
      }
      case O_COPY_CTOR:
      case O_CTOR_MP: {
        if (i == j)
          break;
        N* src = m[j];
        // guard_ptr(marked_ptr) protects from "now" on: with hazard eras that is only sound for a node that has not been retired
        // yet, which a holder cannot know while another thread retires nodes -> plain copy construction there
        const bool from_mp = in.op == O_CTOR_MP && (IsHP || !concurrent);
        set_model(i, nullptr);
        g(i).~GPtr();
        live[i] = false;
        bool threw = attempt(in, i, true, [&] {
          if (!from_mp)
            ::new (store[i]) GPtr(g(j));
          else
            ::new (store[i]) GPtr(MPtr(g(j))); // legal: the node is protected by g(j) while the new guard is built
        });
        if (threw) {
          ::new (store[i]) GPtr();
          live[i] = true;
          break;
        }
        live[i] = true;
        set_model(i, src, true);
        check_value(in, i, src);
        check_value(in, j, src);
        expect_throw_if_full(in, i, src != nullptr, threw);
        break;
      }
      case O_MOVE_CTOR: {
        if (i == j)
          break;
        N* src = m[j];
        set_model(i, nullptr);
        g(i).~GPtr();
        live[i] = false;
        attempt(in, i, true, [&] { ::new (store[i]) GPtr(std::move(g(j))); });
        live[i] = true;
        move_model(i, j);
        check_value(in, i, src);
        check_value(in, j, nullptr);
        break;
      }
      case O_SELF: {
        N* x = m[i];
        attempt(in, i, false, [&] {
          GPtr& ref = g(i);
          g(i) = ref;
          if (in.j & 1)
            g(i) = std::move(ref);
        }, x);
        check_value(in, i, x);
        break;
      }
      case O_DEREF: deref_all(); break;
      case O_BUMP: {
        // retire a private dummy node: advances the era clock (HE) and runs a scan; needs one slot for the temporary guard
        if (!Dynamic && protecting(-1) >= K)
          break;
        int64_t id = ((int64_t)tid << 20) | S.next_id.fetch_add(1, std::memory_order_relaxed);
        N* d = new N(id);
        attempt(in, -1, false, [&] {
          GPtr tmp{MPtr(d)};
          tmp.reclaim();
        });
        break;
      }
      }
      if (!failed && (ops & 3) == 0)
        deref_all();
    }
  };

  // ---- concurrent / long random runs ------------------------------------------------------------------------------------
  struct Worker {
    Shared* sh;
    int tid;
    int role; // 0 holder, 1 retirer, 2 sweeper
    std::vector<SInstr> prog;
    int iters = 0;
    uint64_t seed = 0;
    uint64_t throws = 0, ops = 0, full_states = 0, over_k = 0;
    int release_probe = -1; // holder: spec index of the thread that must have exited before the release probe, 0 = none (-1: no probe)
    uint64_t probe_iters = 0;
    bool probed = false;
  };

  // "reset / destruction of a guard_ptr releases its protection": once a thread has destroyed all its guards - and nobody else is
  // around - it must not delay reclamation any more. The thread retires a probe node and keeps passing through reclamation points
  // (a region_guard, a retired dummy); the probe has to be destroyed within a bound that is far above what the slowest scheme needs.
  static bool release_probe(Shared& S, int tid, uint64_t& iters) {
    N* d = new N(((int64_t)tid << 20) | S.next_id.fetch_add(1, std::memory_order_relaxed));
    d->probe = true;
    const void* key = d;
    {
      GPtr tmp{MPtr(d)};
      tmp.reclaim();
    }
    auto gone = [key] {
      xrt::Quiet q;
      return reg().probes_gone.count(key) != 0;
    };
    for (iters = 0; iters < 2000 && !gone(); ++iters) {
      { typename R::region_guard rg{}; }
      N* x = new N(((int64_t)tid << 20) | S.next_id.fetch_add(1, std::memory_order_relaxed));
      GPtr tmp{MPtr(x)};
      tmp.reclaim();
    }
    return gone();
  }

  static void retire_cell(Shared& S, int c, N* replacement, unsigned mark = 0) {
    N* old = S.cell[c].load(std::memory_order_acquire).get();
    S.cell[c].store(MPtr(replacement, mark), std::memory_order_release);
    if (old != nullptr) {
      xrt::op_begin(O_NOPS, true);
      GPtr gd{MPtr(old)}; // this thread is the only one that unlinks: old cannot have been retired yet
      gd.reclaim();
      xrt::op_end();
    }
  }

  static void worker_body(void* p) {
    Worker& w = *(Worker*)p;
    Shared& S = *w.sh;
    if (w.role == 0) {
      Holder* h = new Holder();
      h->sh = &S;
      h->tid = w.tid;
      h->concurrent = true;
      h->init();
      for (auto& in : w.prog)
        h->step(in);
      h->deref_all();
      h->fini();
#ifndef XV_NATIVE
      // the probe is meaningful only when this thread is alone: every other thread of the generation must have exited completely
      // (a thread that is still registered legitimately holds back the epoch based schemes and QSBR)
      if (w.release_probe >= 0 && !h->failed) {
        while (w.release_probe > 0 && !xrt::thread_done(w.release_probe))
          sched_yield();
        w.probed = true;
        if (!release_probe(S, w.tid, w.probe_iters))
          h->fail("protection-not-released",
                  fmt("after thread %d destroyed all its guard_ptrs (and every other thread of the generation was done) a node it retired was "
                      "not reclaimed within %" PRIu64 " further retirements / region_guards: the thread still delays reclamation", w.tid, w.probe_iters));
      }
#endif
      w.throws = h->throws;
      w.ops = h->ops;
      w.full_states = h->full_states;
      w.over_k = h->over_k_states;
      delete h;
    } else if (w.role == 1) {
      Rng rng(w.seed);
      for (int it = 0; it < w.iters; ++it) {
        int c = (int)rng.below(NCELLS);
        N* nn = nullptr;
        if (!rng.chance(1, 5)) {
          int64_t id = ((int64_t)w.tid << 20) | S.next_id.fetch_add(1, std::memory_order_relaxed);
          nn = new N(id);
        }
        retire_cell(S, c, nn, rng.chance(1, 3) ? 1 : 0); // also marked nodes and marked null pointers
      }
      S.retirers_done.fetch_add(1, std::memory_order_release);
    } else {
      for (int c = 0; c < NCELLS; ++c)
        retire_cell(S, c, nullptr);
      // a few more retirements so that scans run after every holder is gone
      for (int k = 0; k < 3; ++k) {
        int64_t id = ((int64_t)w.tid << 20) | S.next_id.fetch_add(1, std::memory_order_relaxed);
        N* d = new N(id);
        GPtr tmp{MPtr(d)};
        tmp.reclaim();
      }
    }
  }

  static SInstr random_instr(Rng& rng, bool concurrent) {
    static const uint8_t weights[O_NOPS] = {10, 4, 2, 6, 5, 4, 3, 4, 3, 3, 1, 2, 2};
    uint32_t total = 0;
    for (int k = 0; k < O_NOPS; ++k)
      total += weights[k];
    uint32_t r = rng.below(total);
    uint8_t op = 0;
    for (int k = 0; k < O_NOPS; ++k) {
      if (r < weights[k]) {
        op = (uint8_t)k;
        break;
      }
      r -= weights[k];
    }
    (void)concurrent;
    return SInstr{op, (uint8_t)rng.below(G), (uint8_t)rng.below(G), (uint8_t)rng.below(NCELLS)};
  }

  static void run_random(const ExecCtx& ctx, ExecOut& out) {
    Rng rng(ctx.seed);
    {
      xrt::Quiet q;
      reg().clear();
    }
    Shared* S = new Shared();
    std::string desc;
    uint64_t throws = 0, ops = 0, full = 0, overk = 0;
    const int generations = 2;
    for (int gen = 0; gen < generations && !xrt::has_violation(); ++gen) {
      int nholders = rng.range(1, 2);
      bool with_retirer = !rng.chance(1, 6);
      std::vector<Worker> ws;
      for (int t = 0; t < nholders; ++t) {
        Worker w{};
        w.sh = S;
        w.role = 0;
        int n = rng.chance(1, 4) ? rng.range(40, 120) : rng.range(8, 40);
        if (G > K + 2 && rng.chance(1, 2)) {
          // wide configurations: let the slot array grow several times (every guard acquires, eras bumped in between so that
          // hazard_eras guards do not share a slot), then release in LIFO / FIFO / random order before the random part
          int upto = rng.range(K + 1, G);
          for (int k = 0; k < upto; ++k) {
            w.prog.push_back(SInstr{O_ACQUIRE, (uint8_t)k, 0, (uint8_t)rng.below(2)});
            if (!IsHP)
              w.prog.push_back(SInstr{O_BUMP, 0, 0, 0});
          }
          int how = (int)rng.below(4); // 0 LIFO, 1 FIFO, 2 random subset, 3 keep
          for (int k = 0; k < upto && how != 3; ++k) {
            int idx = how == 0 ? upto - 1 - k : k;
            if (how != 2 || rng.chance(1, 2))
              w.prog.push_back(SInstr{O_RESET, (uint8_t)idx, 0, 0});
          }
        }
        for (int k = 0; k < n; ++k)
          w.prog.push_back(random_instr(rng, true));
        ws.push_back(std::move(w));
      }
      if (nholders == 1)
        ws[0].release_probe = with_retirer ? 1 : 0; // spec index of the retirer the holder has to wait for (0: nobody)
      if (with_retirer) {
        Worker w{};
        w.sh = S;
        w.role = 1;
        w.iters = rng.range(3, 25);
        w.seed = rng.next();
        ws.push_back(std::move(w));
      }
      bool sweep = gen == generations - 1;
      if (sweep) {
        Worker w{};
        w.sh = S;
        w.role = 2;
        ws.push_back(std::move(w));
      }
      std::vector<xrt::ThreadSpec> specs(ws.size());
      for (size_t t = 0; t < ws.size(); ++t) {
        ws[t].tid = gen * 8 + (int)t + 1;
        specs[t].fn = worker_body;
        specs[t].arg = &ws[t];
        if (ws[t].role == 2) {
          // the sweeper runs after everybody else has exited
          specs[t].start_delay = 1u << 30;
        } else if (rng.chance(1, 4))
          specs[t].start_delay = rng.below(100);
      }
      // the sweeper must start only when the others are done: chain it behind the last other thread
      // (with a release probe the single holder outlives the retirer and must be alone during the probe: the sweeper waits for the holder)
      // Native runtime: there is no probe and the holder does not wait for the retirer, so the sweeper stays behind the retirer (two
      // threads unlinking the same cell would retire a node twice - a harness error the native ASan slice reported as use-after-free).
      if (sweep && ws.size() > 1) {
#ifndef XV_NATIVE
        specs[ws.size() - 1].start_after = nholders == 1 ? 0 : (int)ws.size() - 2;
#else
        specs[ws.size() - 1].start_after = (int)ws.size() - 2;
#endif
      }
      xrt::run(ctx.runcfg((uint64_t)gen), specs.data(), (int)specs.size());
      for (auto& w : ws) {
        throws += w.throws;
        ops += w.ops;
        if (w.probed) {
          counters().add("release_probes");
          counters().max("max_release_probe_iterations", w.probe_iters);
        }
        full += w.full_states;
        overk += w.over_k;
        if (w.role == 0) {
          desc += fmt("gen%d T%d:", gen, w.tid);
          size_t shown = 0;
          for (auto& in : w.prog) {
            if (shown++ > 30) {
              desc += " ...";
              break;
            }
            desc += " " + instr_str(in);
          }
          desc += "\n";
        } else if (w.role == 1)
          desc += fmt("gen%d T%d: retirer x%d\n", gen, w.tid, w.iters);
      }
    }
    delete S;
    counters().add("guard_ops", ops);
    counters().add("exceptions", throws);
    counters().add("ops_with_K_other_guards", full);
    counters().add("ops_with_more_than_K_guards", overk);
    out.history = desc;
    out.hist_hash = mix64(std::hash<std::string>{}(desc), throws);
    out.nontrivial = ops > 4;
    {
      // the registry's verdict at destruction time is the more specific witness; a heap / race report of the runtime follows it
      xrt::Quiet q;
      if (reg().kind.rfind("destroyed-while-guarded", 0) == 0) {
        out.fail(g_prop, reg().kind.c_str(), reg().msg);
        return;
      }
    }
    if (xrt::has_violation())
      return;
    xrt::Quiet q;
    if (!reg().kind.empty()) {
      out.fail(g_prop, reg().kind.c_str(), reg().msg);
      return;
    }
    // Bookkeeping census (C17 "bookkeeping is recycled", C18 "slots reusable"): every thread of this execution has exited and the shared
    // cells are gone, so what is still live on the heap is the reclaimer's bookkeeping (control blocks of exited threads, grown slot
    // blocks, orphaned retire lists) plus the harness' constant state. Executions of one process re-use the records of the threads of all
    // earlier executions, so the live heap at this point must stay bounded by the peak demand of one execution however many thread
    // generations have come and gone. Reference = maximum over executions 24..47 (warm-up done: every program shape has occurred many
    // times); afterwards more than 4 x reference + 64 KiB is reported (a block that is never re-linked / never released makes the
    // footprint grow with every generation; observed on the unchanged tree: the maximum after execution 48 equals the reference or
    // exceeds it by a few hundred bytes).
    uint64_t live = xrt::heap_live_bytes();
    if (live) { // 0: native runtime (no heap census there)
      static uint64_t execs_seen = 0, reference = 0, worst = 0;
      ++execs_seen;
      if (execs_seen >= 24 && execs_seen < 48)
        reference = std::max(reference, live);
      else if (execs_seen >= 48) {
        worst = std::max(worst, live);
        counters().add("bookkeeping_census_samples");
        counters().max("max_bookkeeping_bytes_reference", reference);
        counters().max("max_bookkeeping_bytes_after_warmup", worst);
        if (getenv("XV_CENSUS_TRACE") && (execs_seen & (execs_seen - 1)) == 0)
          fprintf(stderr, "CENSUS exec=%" PRIu64 " live=%" PRIu64 " ref=%" PRIu64 " worst=%" PRIu64 " blocks=%" PRIu64 "\n", execs_seen, live, reference, worst, xrt::heap_live_blocks());
        if (live > 4 * reference + 65536)
          out.fail("C17", "bookkeeping-growth",
                   fmt("live heap after all threads of execution %" PRIu64 " of this process have exited = %" PRIu64 " bytes in %" PRIu64
                       " blocks; reference (maximum over executions 24..47) = %" PRIu64 " bytes: the reclaimer's bookkeeping grows with the number of "
                       "thread generations instead of being recycled",
                       execs_seen, live, xrt::heap_live_blocks(), reference));
      }
    }
  }

  // ---- bounded-exhaustive sequences on one thread ---------------------------------------------------------------------------
  struct ExhArgs {
    Shared* sh;
    const std::vector<SInstr>* alphabet;
    int len;
    int start_state; // number of guards that hold a node before the sequence starts
    uint64_t first, count; // range of sequence numbers
    uint64_t throws = 0, ops = 0, full = 0, overk = 0, sequences = 0;
    std::string failed_seq;
  };

  static void exh_body(void* p) {
    ExhArgs& a = *(ExhArgs*)p;
    Shared& S = *a.sh;
    Holder* h = new Holder();
    h->sh = &S;
    h->tid = 1;
    h->init();
    const size_t A = a.alphabet->size();
    for (uint64_t s = a.first; s < a.first + a.count && !h->failed; ++s) {
      // start state: guards 0..start_state-1 hold the node of cell (k % 2); with start_state > K only as far as slots allow
      h->trace.clear();
      for (int k = 0; k < a.start_state && k < G; ++k) {
        SInstr pre{O_ACQUIRE, (uint8_t)k, 0, (uint8_t)(k % 2)};
        h->step(pre);
      }
      uint64_t code = s;
      for (int pos = 0; pos < a.len && !h->failed; ++pos) {
        const SInstr& in = (*a.alphabet)[code % A];
        code /= A;
        h->step(in);
      }
      ++a.sequences;
      if (h->failed)
        a.failed_seq = h->trace;
      h->reset_all();
    }
    // slots must all be back: K guards can be taken again
    if (!h->failed) {
      h->trace = "(after all sequences) ";
      for (int k = 0; k < K && k < G; ++k)
        h->step(SInstr{O_ACQUIRE, (uint8_t)k, 0, (uint8_t)(k % 2)});
      h->reset_all();
    }
    a.throws = h->throws;
    a.ops = h->ops;
    a.full = h->full_states;
    a.overk = h->over_k_states;
    h->fini();
    delete h;
  }

  static void setup_body(void* p) {
    Shared& S = *(Shared*)p;
    for (int c = 0; c < 2; ++c)
      S.cell[c].store(MPtr(new N(100 + c), (unsigned)c), std::memory_order_release);
    S.cell[2].store(MPtr(nullptr), std::memory_order_release);
    S.cell[3].store(MPtr(nullptr, 1), std::memory_order_release);
  }
  static void sweep_body(void* p) {
    Shared& S = *(Shared*)p;
    for (int c = 0; c < NCELLS; ++c)
      retire_cell(S, c, nullptr);
  }

  static std::vector<SInstr> alphabet() {
    std::vector<SInstr> a;
    for (int i = 0; i < G; ++i) {
      for (int c = 0; c < NCELLS; ++c) {
        a.push_back(SInstr{O_ACQUIRE, (uint8_t)i, 0, (uint8_t)c});
        a.push_back(SInstr{O_ACQ_IF_EQ, (uint8_t)i, 0, (uint8_t)c});
      }
      a.push_back(SInstr{O_ACQ_IF_NE, (uint8_t)i, (uint8_t)((i + 1) % G), 0});
      a.push_back(SInstr{O_RESET, (uint8_t)i, 0, 0});
      for (int j = 0; j < G; ++j) {
        if (i == j)
          continue;
        a.push_back(SInstr{O_COPY_ASSIGN, (uint8_t)i, (uint8_t)j, 0});
        a.push_back(SInstr{O_MOVE_ASSIGN, (uint8_t)i, (uint8_t)j, 0});
        if (i < j)
          a.push_back(SInstr{O_SWAP, (uint8_t)i, (uint8_t)j, 0});
        a.push_back(SInstr{O_COPY_CTOR, (uint8_t)i, (uint8_t)j, 0});
        a.push_back(SInstr{O_MOVE_CTOR, (uint8_t)i, (uint8_t)j, 0});
        a.push_back(SInstr{O_CTOR_MP, (uint8_t)i, (uint8_t)j, 0});
      }
    }
    a.push_back(SInstr{O_BUMP, 0, 0, 0});
    return a;
  }

  // one execution = one slice of the enumeration (slice chosen by the execution's seed; `slices` consecutive executions of a
  // run cover everything, see exh_slices)
  static void run_exhaustive(const ExecCtx& ctx, ExecOut& out, int len, uint64_t slice, uint64_t slices) {
    {
      xrt::Quiet q;
      reg().clear();
    }
    static const std::vector<SInstr> alpha = alphabet();
    uint64_t total = 1;
    for (int k = 0; k < len; ++k)
      total *= alpha.size();
    uint64_t per = (total + slices - 1) / slices;
    uint64_t first = slice * per;
    uint64_t count = first >= total ? 0 : std::min(per, total - first);
    Shared* S = new Shared();
    xrt::RunCfg rc = ctx.runcfg();
    rc.budget1 = ~0ull >> 2;
    rc.budget2 = ~0ull >> 2;
    rc.freeze = false;
    {
      xrt::ThreadSpec sp{setup_body, S};
      xrt::run(rc, &sp, 1);
    }
    uint64_t throws = 0, ops = 0, full = 0, overk = 0, seqs = 0;
    std::string failed_seq;
    const int starts[3] = {0, K - 1, K};
    for (int st = 0; st < 3 && !xrt::has_violation(); ++st) {
      if (st == 1 && K - 1 == 0)
        continue;
      ExhArgs a{};
      a.sh = S;
      a.alphabet = &alpha;
      a.len = len;
      a.start_state = starts[st];
      a.first = first;
      a.count = count;
      xrt::ThreadSpec sp{exh_body, &a};
      xrt::run(rc, &sp, 1);
      throws += a.throws;
      ops += a.ops;
      full += a.full;
      overk += a.overk;
      seqs += a.sequences;
      bool bad;
      {
        xrt::Quiet q;
        bad = !reg().kind.empty();
      }
      if (bad)
        break;
    }
    {
      xrt::ThreadSpec sp{sweep_body, S};
      xrt::run(rc, &sp, 1);
    }
    delete S;
    counters().add("guard_ops", ops);
    counters().add("exceptions", throws);
    counters().add("ops_with_K_other_guards", full);
    counters().add("ops_with_more_than_K_guards", overk);
    counters().add("exhaustive_sequences", seqs);
    counters().max("max_exhaustive_alphabet", alpha.size());
    out.history = fmt("exhaustive: alphabet %zu, length %d, slice %" PRIu64 "/%" PRIu64 " = sequences [%" PRIu64 ", %" PRIu64 ") from start states 0/K-1/K",
                      alpha.size(), len, slice, slices, first, first + count);
    out.hist_hash = mix64(first, count * 31 + (uint64_t)len);
    out.nontrivial = count > 0;
    if (xrt::has_violation())
      return;
    xrt::Quiet q;
    if (!reg().kind.empty())
      out.fail(g_prop, reg().kind.c_str(), reg().msg);
  }
};

struct Cfg {
  std::string name;
  std::function<void(const ExecCtx&, ExecOut&)> run;
};
std::vector<Cfg>& table() {
  static std::vector<Cfg>* t = new std::vector<Cfg>();
  return *t;
}

// the enumeration of an exh_ configuration is cut into this many slices; execution number e (counted per configuration in
// this process) handles slice e % slices, so `--execs slices` covers everything and --only e replays one slice
constexpr uint64_t EXH_SLICES = 16;

template <class R, int K, bool Dynamic, bool IsHP>
void reg_cfg(const char* base) {
  using E = Env<R, K, Dynamic, IsHP>;
  std::string b = fmt("%s_%s_k%d", base, Dynamic ? "dyn" : "sta", K);
  table().push_back({"run_" + b, [](const ExecCtx& c, ExecOut& o) { E::run_random(c, o); }});
  for (int len = 2; len <= 3; ++len) {
    if (len == 3 && K > 2)
      continue; // alphabet^3 is out of reach for K+2 >= 5 guards
    table().push_back({fmt("exh%d_", len) + b, [len](const ExecCtx& c, ExecOut& o) {
                         uint64_t slice = c.exec % EXH_SLICES;
                         E::run_exhaustive(c, o, len, slice, EXH_SLICES);
                       }});
  }
}

template <class R, int K, bool IsHP>
void reg_wide(const char* base) {
  constexpr int NG = 3 * K + 2 > MAXG ? MAXG : 3 * K + 2;
  using E = Env<R, K, true, IsHP, NG>;
  table().push_back({fmt("wide_%s_dyn_k%d", base, K), [](const ExecCtx& c, ExecOut& o) { E::run_random(c, o); }});
}

template <int K>
void reg_k() {
  using HPs = xr::hazard_pointer<>::with<xp::allocation_strategy<xr::hp_allocation::static_strategy<K, 0, 1>>>;
  using HPd = xr::hazard_pointer<>::with<xp::allocation_strategy<xr::hp_allocation::dynamic_strategy<K, 0, 1>>>;
  using HEs = xr::hazard_eras<>::with<xp::allocation_strategy<xr::he_allocation::static_strategy<K, 0, 1>>>;
  using HEd = xr::hazard_eras<>::with<xp::allocation_strategy<xr::he_allocation::dynamic_strategy<K, 0, 1>>>;
  reg_cfg<HPs, K, false, true>("hp");
  reg_cfg<HPd, K, true, true>("hp");
  reg_cfg<HEs, K, false, false>("he");
  reg_cfg<HEd, K, true, false>("he");
  reg_wide<HPd, K, true>("hp");
  reg_wide<HEd, K, false>("he");
}
} // namespace

int main(int argc, char** argv) {
  xrt::quiet_begin();
#ifdef XV_RECL
  // guard_ptr algebra for one reclaimer of the matrix (C15): 4 guards, no exception is ever expected
  g_prop = "C15";
  using R = xv::recl<XV_RECL>::type;
  using E = Env<R, 2, true, false>;
  table().push_back({"run_alg", [](const ExecCtx& c, ExecOut& o) { E::run_random(c, o); }});
  table().push_back({"exh2_alg", [](const ExecCtx& c, ExecOut& o) { E::run_exhaustive(c, o, 2, c.exec % EXH_SLICES, EXH_SLICES); }});
  table().push_back({"exh3_alg", [](const ExecCtx& c, ExecOut& o) { E::run_exhaustive(c, o, 3, c.exec % EXH_SLICES, EXH_SLICES); }});
  static std::string name = std::string("algebra.") + xv::recl<XV_RECL>::name;
#else
  reg_k<1>();
  reg_k<2>();
  reg_k<3>();
  reg_k<5>();
  static std::string name = "slots";
#endif
  ScenarioDef def;
  def.name = name.c_str();
  for (auto& c : table())
    def.configs.push_back(c.name);
  def.run = [](const std::string& cfg, const ExecCtx& ctx, ExecOut& out) {
    for (auto& c : table())
      if (c.name == cfg) {
        c.run(ctx, out);
        return;
      }
  };
  return scenario_main(argc, argv, def);
}
