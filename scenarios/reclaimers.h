// Reclaimer matrix (DESIGN.md section 4): R8 = 0..7, R+ = 8..15. Selected at compile time with -DXV_RECL=<n>.
#pragma once
#include <xenium/reclamation/generic_epoch_based.hpp>
#include <xenium/reclamation/hazard_eras.hpp>
#include <xenium/reclamation/hazard_pointer.hpp>
#include <xenium/reclamation/lock_free_ref_count.hpp>
#include <xenium/reclamation/quiescent_state_based.hpp>
#include <xenium/reclamation/stamp_it.hpp>

#ifndef XV_RECL
  #define XV_RECL 1
#endif
#ifndef XV_HPK
  #define XV_HPK 5 // hazard pointer / era slots per thread (Harris-Michael iterator + own update needs 5)
#endif

namespace xv {
namespace xr = xenium::reclamation;
namespace xp = xenium::policy;

template <int N>
struct recl;

template <>
struct recl<0> {
  using type = xr::lock_free_ref_count<>;
  static constexpr const char* name = "lfrc";
};
template <>
struct recl<1> {
  using type = xr::hazard_pointer<>::with<xp::allocation_strategy<xr::hp_allocation::static_strategy<XV_HPK, 1, 0>>>;
  static constexpr const char* name = "hp_static";
};
template <>
struct recl<2> {
  using type = xr::hazard_eras<>::with<xp::allocation_strategy<xr::he_allocation::static_strategy<XV_HPK, 1, 0>>>;
  static constexpr const char* name = "he_static";
};
template <>
struct recl<3> {
  using type = xr::quiescent_state_based;
  static constexpr const char* name = "qsbr";
};
template <>
struct recl<4> {
  using type = xr::stamp_it;
  static constexpr const char* name = "stamp_it";
};
template <>
struct recl<5> {
  using type = xr::epoch_based<>::with<xp::scan_frequency<1>>;
  static constexpr const char* name = "ebr_sf1";
};
template <>
struct recl<6> {
  using type = xr::new_epoch_based<>::with<xp::scan_frequency<1>>;
  static constexpr const char* name = "nebr_sf1";
};
template <>
struct recl<7> {
  using type = xr::debra<>::with<xp::scan_frequency<1>>;
  static constexpr const char* name = "debra_sf1";
};
// ---- extended matrix
template <>
struct recl<8> {
  using type = xr::hazard_pointer<>::with<xp::allocation_strategy<xr::hp_allocation::dynamic_strategy<2, 1, 0>>>;
  static constexpr const char* name = "hp_dynamic";
};
template <>
struct recl<9> {
  using type = xr::hazard_eras<>::with<xp::allocation_strategy<xr::he_allocation::dynamic_strategy<2, 1, 0>>>;
  static constexpr const char* name = "he_dynamic";
};
template <>
struct recl<10> {
  using type = xr::lock_free_ref_count<>::with<xp::thread_local_free_list_size<2>, xp::insert_padding<true>>;
  static constexpr const char* name = "lfrc_tl2_pad";
};
template <>
struct recl<11> {
  using type = xr::generic_epoch_based<>::with<xp::scan_frequency<1>, xp::scan<xr::scan::n_threads<2>>,
                                               xp::abandon<xr::abandon::always>,
                                               xp::region_extension<xr::region_extension::eager>>;
  static constexpr const char* name = "geb_n2_abandon_always";
};
template <>
struct recl<12> {
  using type = xr::generic_epoch_based<>::with<xp::scan_frequency<1>, xp::scan<xr::scan::all_threads>,
                                               xp::abandon<xr::abandon::when_exceeds_threshold<2>>,
                                               xp::region_extension<xr::region_extension::lazy>>;
  static constexpr const char* name = "geb_all_abandon_thr2_lazy";
};
template <>
struct recl<13> {
  using type = xr::generic_epoch_based<>::with<xp::scan_frequency<0>, xp::scan<xr::scan::one_thread>,
                                               xp::abandon<xr::abandon::never>,
                                               xp::region_extension<xr::region_extension::none>>;
  static constexpr const char* name = "geb_sf0_one_none";
};
template <>
struct recl<14> {
  using type = xr::epoch_based<>::with<xp::scan_frequency<2>>;
  static constexpr const char* name = "ebr_sf2";
};
template <>
struct recl<15> {
  using type = xr::debra<>::with<xp::scan_frequency<2>, xp::abandon<xr::abandon::always>>;
  static constexpr const char* name = "debra_sf2_abandon";
};

// ---- eager variants: threshold 0, i.e. a scan on every retirement: a node that is retired while nobody protects it is freed at once,
// so any later access through a stale pointer hits the freed-memory shadow immediately (sharpest setting of the heap oracle)
template <>
struct recl<16> {
  using type = xr::hazard_pointer<>::with<xp::allocation_strategy<xr::hp_allocation::static_strategy<XV_HPK, 0, 0>>>;
  static constexpr const char* name = "hp_eager";
};
template <>
struct recl<17> {
  using type = xr::hazard_eras<>::with<xp::allocation_strategy<xr::he_allocation::static_strategy<XV_HPK, 0, 0>>>;
  static constexpr const char* name = "he_eager";
};

// Slot bookkeeping that hazard_pointer / hazard_eras publish through their allocation strategy (the number of hazard pointers /
// eras of all live threads: it scales the retire threshold and the size of every scan); -1 for reclaimers without such a counter.
template <int N>
inline long declared_slots() {
  return -1;
}
template <>
inline long declared_slots<1>() {
  return (long)xr::hp_allocation::static_strategy<XV_HPK, 1, 0>::number_of_active_hazard_pointers();
}
template <>
inline long declared_slots<2>() {
  return (long)xr::he_allocation::static_strategy<XV_HPK, 1, 0>::number_of_active_hazard_eras();
}
template <>
inline long declared_slots<16>() {
  return (long)xr::hp_allocation::static_strategy<XV_HPK, 0, 0>::number_of_active_hazard_pointers();
}
template <>
inline long declared_slots<17>() {
  return (long)xr::he_allocation::static_strategy<XV_HPK, 0, 0>::number_of_active_hazard_eras();
}
template <>
inline long declared_slots<8>() {
  return (long)xr::hp_allocation::dynamic_strategy<2, 1, 0>::number_of_active_hazard_pointers();
}
template <>
inline long declared_slots<9>() {
  return (long)xr::he_allocation::dynamic_strategy<2, 1, 0>::number_of_active_hazard_eras();
}

using R = recl<XV_RECL>::type;
static constexpr const char* RNAME = recl<XV_RECL>::name;
} // namespace xv
