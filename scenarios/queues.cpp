// Scenario "queues": C04 (MS / ramalhete / nikolaev FIFO), C05 (bounded FIFOs), C06 (k-FIFO), C07 (element ownership).
// Build variants: -DXV_RECL=<n> selects the reclaimer for the reclaimer-parameterised queues;
//                 -DXV_NORECL builds the reclaimer-free queues (vyukov_bounded, nikolaev_bounded, kirsch_bounded).
#include "harness.h"
#include "../monitors/elements.h"
#include "../monitors/models.h"
#include "reclaimers.h"

#include <xenium/kirsch_bounded_kfifo_queue.hpp>
#include <xenium/kirsch_kfifo_queue.hpp>
#include <xenium/michael_scott_queue.hpp>
#include <xenium/nikolaev_bounded_queue.hpp>
#include <xenium/nikolaev_queue.hpp>
#include <xenium/ramalhete_queue.hpp>
#include <xenium/vyukov_bounded_queue.hpp>

#include <deque>

using namespace hz;
using namespace mon;

namespace {

struct QParams {
  int64_t cap = 0;      // bounded: constructor argument
  int64_t k = 1;        // k-FIFO
  int64_t segments = 0; // bounded k-FIFO
  unsigned epn = 0;     // entries per node (for shaping the prefix)
  const char* prop = "C04";
};

// ---- adapters -------------------------------------------------------------------------------------------------
template <class Q, class E>
struct UnboundedAd {
  using Elem = E;
  using T = typename E::type;
  static constexpr bool bounded = false;
  static constexpr bool has_weak = false;
  static constexpr bool push_by_value = true;
  static constexpr bool strong_lockfree = true;
  Q q;
  explicit UnboundedAd(const QParams&) {}
  bool push(T& v, bool) {
    q.push(std::move(v));
    return true;
  }
  bool pop(T& out, int variant, bool) {
    if (variant == 0)
      return q.try_pop(out);
    auto o = q.pop();
    if (!o.has_value())
      return false;
    out = std::move(*o);
    return true;
  }
  QueueModel model(const QParams&) const { return QueueModel{}; }
};

template <class Q, class E>
struct KfifoAd {
  using Elem = E;
  using T = typename E::type;
  static constexpr bool bounded = false;
  static constexpr bool has_weak = false;
  static constexpr bool push_by_value = true;
  static constexpr bool strong_lockfree = true;
  Q q;
  explicit KfifoAd(const QParams& p) : q((uint64_t)p.k) {}
  bool push(T& v, bool) {
    q.push(std::move(v));
    return true;
  }
  bool pop(T& out, int variant, bool) {
    if (variant == 0)
      return q.try_pop(out);
    auto o = q.pop();
    if (!o.has_value())
      return false;
    out = std::move(*o);
    return true;
  }
  QueueModel model(const QParams& p) const {
    QueueModel m;
    m.k = p.k;
    m.pop_fail = PE_KFIFO;
    return m;
  }
};

template <class Q, class E>
struct BoundedKfifoAd {
  using Elem = E;
  using T = typename E::type;
  static constexpr bool bounded = true;
  static constexpr bool has_weak = false;
  static constexpr bool push_by_value = true;
  static constexpr bool strong_lockfree = true;
  Q q;
  explicit BoundedKfifoAd(const QParams& p) : q((uint64_t)p.k, (uint64_t)p.segments) {}
  bool push(T& v, bool) { return q.try_push(std::move(v)); }
  bool pop(T& out, int variant, bool) {
    if (variant == 0)
      return q.try_pop(out);
    auto o = q.pop();
    if (!o.has_value())
      return false;
    out = std::move(*o);
    return true;
  }
  QueueModel model(const QParams& p) const {
    QueueModel m;
    m.k = p.k;
    m.capacity = p.k * p.segments;
    m.pop_fail = PE_KFIFO;
    m.push_fail = PF_KFIFO;
    m.kfifo_min_full = (p.segments - 1) * p.k + 1;
    return m;
  }
};

template <class Q, class E>
struct NikBoundedAd {
  using Elem = E;
  using T = typename E::type;
  static constexpr bool bounded = true;
  static constexpr bool has_weak = false;
  static constexpr bool push_by_value = true;
  static constexpr bool strong_lockfree = true;
  Q q;
  explicit NikBoundedAd(const QParams& p) : q((size_t)p.cap) {}
  bool push(T& v, bool) { return q.try_push(std::move(v)); }
  bool pop(T& out, int variant, bool) {
    if (variant == 0)
      return q.try_pop(out);
    auto o = q.pop();
    if (!o.has_value())
      return false;
    out = std::move(*o);
    return true;
  }
  QueueModel model(const QParams&) const {
    QueueModel m;
    m.capacity = (int64_t)q.capacity();
    m.push_fail = PF_FULL_INFLIGHT;
    return m;
  }
};

template <class Q, class E, bool DW = false>
struct VyukovAd {
  using Elem = E;
  using T = typename E::type;
  static constexpr bool bounded = true;
  static constexpr bool has_weak = true;
  static constexpr bool push_by_value = false; // perfect forwarding: a rejected value stays with the caller
  static constexpr bool strong_lockfree = false;
  Q q;
  explicit VyukovAd(const QParams& p) : q((size_t)p.cap) {}
  // DW = the queue was instantiated with policy::default_to_weak<true>: the unqualified operations (try_push / try_pop / pop) are
  // the weak ones there and the strong ones otherwise; the explicitly named variants must behave the same under both policies.
  bool push(T& v, bool weak) {
    if (weak)
      return DW ? q.try_push(std::move(v)) : q.try_push_weak(std::move(v));
    return q.try_push_strong(std::move(v));
  }
  bool pop(T& out, int variant, bool weak) {
    if (weak != DW || variant == 0)
      return weak ? q.try_pop_weak(out) : q.try_pop_strong(out);
    if (xrt::tid() & 1)
      return q.try_pop(out); // default flavour
    auto o = q.pop(); // default flavour
    if (!o.has_value())
      return false;
    out = std::move(*o);
    return true;
  }
  QueueModel model(const QParams& p) const {
    QueueModel m;
    m.capacity = p.cap;
    m.push_fail = PF_FULL;
    return m;
  }
};

// ---- one execution ----------------------------------------------------------------------------------------------
struct POp {
  uint8_t kind;
  int64_t value;
  uint8_t variant;
  bool weak;
};

template <class Ad>
struct Worker {
  Ad* ad;
  std::vector<POp> prog;
  std::vector<OpRec> recs;
  Recorder rec;
  int tid;
};

template <class Ad>
void exec_op(Ad* ad, const POp& p, OpRec& o, const Recorder& rec, int tid) {
  using E = typename Ad::Elem;
  using T = typename E::type;
  o.thread = (uint8_t)tid;
  o.kind = p.kind;
  o.b = p.weak ? 1 : 0;
  if (p.kind == Q_PUSH) {
    o.a = p.value;
    T v = E::make(p.value);
    if (E::owned)
      elems().pushing(p.value);
    rec.begin(o);
    xrt::op_begin(Q_PUSH, p.weak || Ad::strong_lockfree);
    bool ok = ad->push(v, p.weak);
    xrt::op_end();
    o.r = ok ? 1 : 0;
    rec.end(o);
    if (E::owned) {
      elems().push_returned(p.value, ok);
      if (!ok) {
        if (E::holds(v))
          E::consume(v); // the caller still owns it and destroys it itself
        else if (!Ad::push_by_value)
          elems().err("elem-rejected-but-taken", fmt("rejected try_push took value %" PRId64 " away from the caller", p.value));
        else if (E::queue_owns && elems().alive(p.value))
          elems().err("elem-leaked", fmt("value %" PRId64 " was rejected, taken from the caller and not destroyed", p.value));
      } else if (E::holds(v) && Ad::push_by_value && E::queue_owns) {
        elems().err("elem-harness", "accepted push left the value in the caller's handle");
      }
    }
    if (ok && std::is_pointer<T>::value)
      v = E::empty();
  } else {
    T out = E::empty();
    rec.begin(o);
    xrt::op_begin(Q_POP, p.weak || Ad::strong_lockfree);
    bool ok = ad->pop(out, p.variant, p.weak);
    xrt::op_end();
    o.r = ok ? 1 : 0;
    if (ok)
      o.r2 = E::id_of(out);
    rec.end(o);
    if (ok && E::owned) {
      elems().to_consumer(o.r2);
      E::consume(out);
    }
  }
}

template <class Ad>
void worker_body(void* p) {
  auto* w = (Worker<Ad>*)p;
  for (size_t i = 0; i < w->prog.size(); ++i)
    exec_op(w->ad, w->prog[i], w->recs[i], w->rec, w->tid);
}

template <class Ad>
void run_queue(const QParams& prm, const ExecCtx& ctx, ExecOut& out) {
  using E = typename Ad::Elem;
  Rng rng(ctx.seed);
  elems().reset();
  // ---- program
  int nthreads = rng.range(2, 4);
  int maxops = nthreads == 4 ? 5 : 6;
  int64_t next_id = 1;
  std::vector<Worker<Ad>> workers((size_t)nthreads);
  int flavour = (int)rng.below(4); // 0 mixed, 1 producers vs consumers, 2 push-heavy, 3 pop-heavy
  for (int t = 0; t < nthreads; ++t) {
    Worker<Ad>& w = workers[(size_t)t];
    int nops = rng.range(1, maxops);
    for (int i = 0; i < nops; ++i) {
      bool push;
      switch (flavour) {
      case 1: push = t % 2 == 0; break;
      case 2: push = rng.chance(3, 4); break;
      case 3: push = rng.chance(1, 4); break;
      default: push = rng.chance(1, 2);
      }
      POp p;
      p.kind = push ? Q_PUSH : Q_POP;
      p.value = push ? ((int64_t)(t + 1) << 8 | next_id++) : 0;
      p.variant = (uint8_t)rng.below(2);
      p.weak = Ad::has_weak && rng.chance(1, 3);
      w.prog.push_back(p);
    }
    w.recs.resize(w.prog.size());
    w.rec.weak = ctx.weak;
    w.tid = t + 1;
  }
  // sequential prefix on the main thread: fills nodes / rings so that hand-over happens inside the concurrent part
  int64_t span = prm.cap > 0 ? prm.cap : prm.k * (prm.segments > 0 ? prm.segments : 2);
  if (prm.epn)
    span = prm.epn;
  if (span > 9)
    span = 9;
  int npre_push = (int)rng.below((uint32_t)span + 2);
  int npre_pop = rng.chance(1, 2) ? (int)rng.below((uint32_t)npre_push + 1) : 0;
  History h;
  h.weak = ctx.weak;
  Recorder mrec{ctx.weak};
  Ad* ad;
  {
    xrt::quiet_end();
    ad = new Ad(prm);
    xrt::quiet_begin();
  }
  auto main_op = [&](const POp& p) {
    OpRec o;
    xrt::quiet_end();
    exec_op(ad, p, o, mrec, 0);
    xrt::quiet_begin();
    h.ops.push_back(o);
    return o;
  };
  for (int i = 0; i < npre_push; ++i)
    main_op(POp{Q_PUSH, (int64_t)(9 << 8 | next_id++), 0, false});
  for (int i = 0; i < npre_pop; ++i)
    main_op(POp{Q_POP, 0, (uint8_t)rng.below(2), false});
  // ---- concurrent part
  std::vector<xrt::ThreadSpec> specs((size_t)nthreads);
  for (int t = 0; t < nthreads; ++t) {
    workers[(size_t)t].ad = ad;
    specs[(size_t)t].fn = worker_body<Ad>;
    specs[(size_t)t].arg = &workers[(size_t)t];
    if (rng.chance(1, 5))
      specs[(size_t)t].start_delay = rng.below(120);
  }
  xrt::RunResult rr = xrt::run(ctx.runcfg(), specs.data(), nthreads);
  for (auto& w : workers)
    for (auto& o : w.recs)
      h.ops.push_back(o);
  // ---- drain (fully, partially or not at all) and destroy
  int drain_mode = (int)rng.below(10); // 0..5 full, 6..7 partial, 8..9 none
  bool full_drain = drain_mode <= 5;
  int max_drain = full_drain ? 64 : drain_mode <= 7 ? (int)rng.below(3) + 1 : 0;
  int drained = 0;
  for (int i = 0; i < max_drain && h.ops.size() < 63; ++i) {
    OpRec o = main_op(POp{Q_POP, 0, (uint8_t)rng.below(2), false});
    if (!o.r)
      break;
    ++drained;
  }
  QueueModel model = ad->model(prm);
  model.weak = ctx.weak;
  elems().queue_dying = true;
  {
    xrt::quiet_end();
    delete ad;
    xrt::quiet_begin();
  }
  // ---- judge
  compute_overlaps(h);
  out.hist_hash = history_hash(h);
  out.nontrivial = history_nontrivial(h);
  out.history = history_str(h, queue_op_str);
  counters().add("ops", h.ops.size());
  counters().add("drained", (uint64_t)drained);
  if (rr.drain_mode)
    counters().add("budget_drain_mode");
  for (auto& o : h.ops) {
    if (o.kind == Q_POP && !o.r && o.overlap && o.thread)
      counters().add("empty_under_overlap");
    if (o.kind == Q_PUSH && !o.r)
      counters().add(o.overlap ? "rejected_under_overlap" : "rejected_sequential");
  }
  if (xrt::has_violation())
    return; // reported by the caller with the runtime's kind
  // linearizability
  WglResult wr = wgl_check(h, model, QueueModel::State{});
  counters().add("wgl_nodes", wr.nodes);
  if (wr.verdict == V_INCONCLUSIVE) {
    out.inconclusive = true;
    counters().add("wgl_inconclusive");
  } else if (wr.verdict == V_VIOLATION) {
    std::string pre;
    for (int i : wr.best_prefix)
      pre += queue_op_str(h.ops[(size_t)i]) + "; ";
    // Which kind of violation? If the history becomes linearizable once the 'empty' / 'rejected' verdicts of the worker threads
    // are not judged, every value was delivered exactly once and in order and only such a verdict is wrong (the queue was not
    // empty / full at any instant of that call): kind false-empty-or-full. Otherwise values were lost, duplicated, invented
    // or reordered: kind not-linearizable.
    const char* kind = "not-linearizable";
    if (!model.weak) {
      auto relaxed = model;
      relaxed.weak = true;
      WglResult wr2 = wgl_check(h, relaxed, QueueModel::State{});
      counters().add("wgl_nodes", wr2.nodes);
      if (wr2.verdict == V_OK)
        kind = "false-empty-or-full";
    }
    out.fail(prm.prop, kind,
             fmt("no linearization of the history w.r.t. the %s model (k=%" PRId64 " cap=%" PRId64
                 ")%s; longest legal prefix: %s",
                 model.k > 1 ? "k-FIFO" : "FIFO", model.k, model.capacity,
                 kind[0] == 'f' ? " - only an 'empty' / 'rejected' verdict of a worker thread is wrong, no value lost or reordered" : "", pre.c_str()));
    return;
  }
  // element ownership census (C07)
  if (E::owned) {
    auto& reg = elems();
    if (!reg.error_kind.empty()) {
      out.fail("C07", reg.error_kind.c_str(), reg.error_msg);
      return;
    }
    uint64_t in_queue = 0;
    for (auto& kv : reg.m) {
      const ERec& r = kv.second;
      if (r.state == E_QUEUE) {
        ++in_queue;
        if (E::queue_owns && r.dtors != 1) {
          out.fail("C07", "elem-leaked", fmt("value %" PRId64 " was still in the destroyed queue but was destroyed %d times",
                                             kv.first, r.dtors));
          return;
        }
        if (!E::queue_owns && r.dtors != 0) {
          out.fail("C07", "elem-raw-deleted", fmt("raw pointer value %" PRId64 " was deleted by the queue", kv.first));
          return;
        }
      } else if (r.dtors != 1) {
        out.fail("C07", "elem-count", fmt("value %" PRId64 " in state %d destroyed %d times", kv.first, r.state, r.dtors));
        return;
      }
    }
    counters().add("destroyed_with_elements", in_queue ? 1 : 0);
    counters().add("elements_in_destroyed_queue", in_queue);
    if (full_drain && in_queue && h.ops.size() < 63) {
      out.fail(prm.prop, "drain-incomplete", fmt("%" PRIu64 " accepted values were neither popped nor drained", in_queue));
      return;
    }
  }
}

// ---- large constructions (C06: "every k >= 1 and every segment count the constructor accepts ... products above 2^16") ------
// One execution = one sequential sweep on the main thread over a construction with k * segments around and above 2^16: fill until
// rejected, drain, then random bursts that keep crossing the wrap-around. No concurrency, so the k-FIFO specification is exact:
// a pop returns one of the k oldest values present, EMPTY only when nothing is stored, a push is rejected only with at least
// (segments-1)*k+1 values stored. The deciding oracle is the reference model below, not the WGL search (histories have 10^5..10^6
// operations); the last operations before a violation are the witness.
template <class Ad>
void run_big(const QParams& prm, const ExecCtx& ctx, ExecOut& out) {
  using E = typename Ad::Elem;
  Rng rng(ctx.seed);
  elems().reset();
  Recorder mrec{false};
  Ad* ad;
  {
    xrt::quiet_end();
    ad = new Ad(prm);
    xrt::quiet_begin();
  }
  const int64_t cap = Ad::bounded ? prm.k * prm.segments : -1;
  const int64_t min_full = Ad::bounded ? (prm.segments - 1) * prm.k + 1 : 0;
  const int64_t span = Ad::bounded ? cap : prm.k * 3;
  // values are 1, 2, 3, ... in push order; `present` = Fenwick tree over the ids of the stored values (rank queries in O(log n))
  struct Present {
    std::vector<int32_t> bit;
    std::vector<uint8_t> in;
    size_t n = 0;
    explicit Present(size_t cap) : bit(cap + 2, 0), in(cap + 2, 0) {}
    void upd(size_t i, int d) {
      for (; i < bit.size(); i += i & (~i + 1))
        bit[i] += d;
    }
    size_t size() const { return n; }
    bool empty() const { return n == 0; }
    bool has(int64_t v) const { return v > 0 && (size_t)v < in.size() && in[(size_t)v]; }
    void add(int64_t v) { in[(size_t)v] = 1; upd((size_t)v, 1); ++n; }
    void del(int64_t v) { in[(size_t)v] = 0; upd((size_t)v, -1); --n; }
    size_t rank(int64_t v) const { // number of stored values older than v
      size_t r = 0;
      for (size_t i = (size_t)v - 1; i > 0; i -= i & (~i + 1))
        r += (size_t)bit[i];
      return r;
    }
  } present((size_t)(span * 4 + 200000));
  std::deque<std::string> tail_log;
  int64_t next_id = 1;
  uint64_t nops = 0, pushes_ok = 0, pushes_rej = 0, pops_ok = 0, pops_empty = 0, wraps = 0, max_rank = 0;
  int64_t pushed_total = 0;
  auto log_op = [&](const OpRec& o) {
    tail_log.push_back(queue_op_str(o) + fmt("   (stored before: %zu)", present.size()));
    if (tail_log.size() > 24)
      tail_log.pop_front();
  };
  auto witness = [&]() {
    std::string s = fmt("... %" PRIu64 " operations, the last ones:\n", nops);
    for (auto& l : tail_log)
      s += l + "\n";
    return s;
  };
  auto do_push = [&]() -> bool {
    OpRec o;
    POp p{Q_PUSH, next_id++, 0, false};
    xrt::quiet_end();
    exec_op(ad, p, o, mrec, 0);
    xrt::quiet_begin();
    ++nops;
    xrt::main_progress();
    log_op(o);
    if (o.r) {
      ++pushes_ok;
      if (cap >= 0 && (int64_t)present.size() >= cap) {
        out.fail("C06", "big-overfull", fmt("push accepted although %zu >= k*segments = %" PRId64 " values are stored", present.size(), cap));
        return false;
      }
      present.add(p.value);
      if (cap > 0 && ++pushed_total % cap == 0)
        ++wraps;
    } else {
      ++pushes_rej;
      if (!Ad::bounded || (int64_t)present.size() < min_full) {
        out.fail("C06", "big-false-full", fmt("push rejected with %zu values stored (rejection legal only with >= %" PRId64 ")", present.size(), min_full));
        return false;
      }
    }
    return true;
  };
  auto do_pop = [&]() -> bool {
    OpRec o;
    POp p{Q_POP, 0, (uint8_t)rng.below(2), false};
    xrt::quiet_end();
    exec_op(ad, p, o, mrec, 0);
    xrt::quiet_begin();
    ++nops;
    xrt::main_progress();
    log_op(o);
    if (!o.r) {
      ++pops_empty;
      if (!present.empty()) {
        out.fail("C06", "big-false-empty", fmt("pop reported EMPTY with %zu values stored and no operation in progress", present.size()));
        return false;
      }
      return true;
    }
    ++pops_ok;
    bool stored = present.has(o.r2);
    if (stored) {
      size_t rk = present.rank(o.r2);
      if (rk < (size_t)prm.k) {
        if (rk > max_rank)
          max_rank = rk;
        present.del(o.r2);
        return true;
      }
    }
    out.fail("C06", stored ? "big-order" : "big-not-stored",
             stored ? fmt("pop returned %" PRId64 " which is not among the %" PRId64 " oldest values stored", o.r2, prm.k)
                    : fmt("pop returned %" PRId64 " which is not stored (never pushed, or popped before)", o.r2));
    return false;
  };
  bool ok = true;
  // phase 1: fill until the first rejection (bounded) or past 2^16 + a bit (unbounded); then a few more pushes
  int64_t fill_target = Ad::bounded ? cap + 2 * prm.k + (int64_t)rng.below(5) : (int64_t)70000 + (int64_t)rng.below(3000);
  for (int64_t i = 0; ok && i < fill_target; ++i)
    ok = do_push();
  if (ok && Ad::bounded && (int64_t)present.size() < min_full) {
    out.fail("C06", "big-false-full", fmt("only %zu values could be stored, fewer than (segments-1)*k+1 = %" PRId64, present.size(), min_full));
    ok = false;
  }
  // phase 2: drain completely, two more pops must report EMPTY
  while (ok && !present.empty())
    ok = do_pop();
  for (int i = 0; ok && i < 2; ++i)
    ok = do_pop();
  // phase 3: bursts crossing the wrap-around at varying fill levels
  int64_t budget = Ad::bounded ? span * 2 + 1000 : std::min<int64_t>(span * 2 + 1000, 30000);
  while (ok && budget > 0) {
    int64_t burst = 1 + (int64_t)rng.below(rng.chance(1, 3) ? (uint32_t)std::min<int64_t>(span, 40000) : 64);
    bool push = rng.chance(1, 2);
    if (rng.chance(1, 8))
      push = present.size() < (size_t)(span / 2); // pull towards the boundaries from time to time
    int64_t done = 0;
    for (uint64_t fails = 0; ok && done < burst && fails < 2; ++done) {
      uint64_t before = pushes_rej + pops_empty;
      ok = push ? do_push() : do_pop();
      fails += (pushes_rej + pops_empty) - before; // two rejections / EMPTY verdicts in a row: turn around
    }
    budget -= done + 1;
  }
  // phase 4: final drain
  while (ok && !present.empty())
    ok = do_pop();
  if (ok)
    ok = do_pop();
  elems().queue_dying = true;
  {
    xrt::quiet_end();
    delete ad;
    xrt::quiet_begin();
  }
  counters().add("ops", nops);
  counters().add("big_ops", nops);
  counters().add("big_pushes_accepted", pushes_ok);
  counters().add("big_pushes_rejected", pushes_rej);
  counters().add("big_pops", pops_ok);
  counters().add("big_pops_empty", pops_empty);
  counters().add("big_ring_wraps", wraps);
  counters().max("max_big_overtaking_rank", max_rank);
  out.hist_hash = mix64(mix64(nops, pushes_ok), mix64(pops_ok, pushes_rej) ^ ctx.seed);
  out.nontrivial = true; // sequential by construction; counted as distinct sweeps, see the rule text of C06
  if (out.violation || xrt::has_violation()) {
    out.history = witness();
    return;
  }
  if (E::owned) {
    auto& reg = elems();
    if (!reg.error_kind.empty()) {
      out.history = witness();
      out.fail("C07", reg.error_kind.c_str(), reg.error_msg);
      return;
    }
    for (auto& kv : reg.m)
      if (kv.second.dtors != 1) {
        out.fail("C07", "elem-count", fmt("value %" PRId64 " in state %d destroyed %d times", kv.first, kv.second.state, kv.second.dtors));
        return;
      }
  }
}

} // namespace

// ---- configuration table ------------------------------------------------------------------------------------------
namespace {
struct Cfg {
  std::string name;
  std::function<void(const ExecCtx&, ExecOut&)> run;
};
std::vector<Cfg>& table() {
  static std::vector<Cfg>* t = new std::vector<Cfg>();
  return *t;
}
template <class Ad>
void reg(const std::string& name, QParams p) {
  table().push_back({name, [p](const ExecCtx& c, ExecOut& o) { run_queue<Ad>(p, c, o); }});
}
template <class Ad>
void reg_big(const std::string& name, QParams p) {
  table().push_back({name, [p](const ExecCtx& c, ExecOut& o) { run_big<Ad>(p, c, o); }});
}

namespace xp = xenium::policy;

#ifndef XV_NORECL
using R = xv::R;
template <class E>
using MS = xenium::michael_scott_queue<typename E::type, xp::reclaimer<R>>;
template <class E, unsigned N, unsigned Retries>
using RAM = xenium::ramalhete_queue<typename E::type, xp::reclaimer<R>, xp::entries_per_node<N>, xp::pop_retries<Retries>>;
template <class E, unsigned N, unsigned Retries>
using NIK = xenium::nikolaev_queue<typename E::type, xp::reclaimer<R>, xp::entries_per_node<N>, xp::pop_retries<Retries>>;
template <class E>
using KIR = xenium::kirsch_kfifo_queue<typename E::type, xp::reclaimer<R>>;

template <class E, unsigned N, unsigned Retries>
void reg_ram() {
  QParams p;
  p.epn = N;
  reg<UnboundedAd<RAM<E, N, Retries>, E>>(fmt("ram_e%u_r%u_%s", N, Retries, E::name), p);
}
template <class E, unsigned N, unsigned Retries>
void reg_nik() {
  QParams p;
  p.epn = N;
  reg<UnboundedAd<NIK<E, N, Retries>, E>>(fmt("nik_e%u_r%u_%s", N, Retries, E::name), p);
}
template <class E>
void reg_ms() {
  QParams p;
  p.epn = 1;
  reg<UnboundedAd<MS<E>, E>>(fmt("ms_%s", E::name), p);
}
template <class E>
void reg_kir(int64_t k) {
  QParams p;
  p.k = k;
  p.prop = "C06";
  reg<KfifoAd<KIR<E>, E>>(fmt("kir_k%d_%s", (int)k, E::name), p);
}

void register_all() {
  reg_ms<ElemInt>();
  reg_ms<ElemTok>();
  reg_ms<ElemUptr>();
  reg_ms<ElemRaw>();
  reg_ram<ElemRaw, 1, 0>();
  reg_ram<ElemUptr, 2, 1>();
  reg_ram<ElemInt, 3, 3>();
  reg_ram<ElemUptr, 4, 0>();
  reg_ram<ElemRaw, 5, 1>();
  reg_ram<ElemInt, 7, 0>();
  reg_ram<ElemUptr, 8, 3>();
  reg_ram<ElemRaw, 11, 1>();
  reg_ram<ElemUptr, 16, 0>();
  reg_ram<ElemInt, 2, 0>();
  reg_nik<ElemInt, 1, 0>();
  reg_nik<ElemTok, 2, 1>();
  reg_nik<ElemUptr, 4, 3>();
  reg_nik<ElemRaw, 8, 0>();
  reg_nik<ElemUptr, 2, 0>();
  reg_nik<ElemTok, 1, 1>();
  reg_nik<ElemUptr, 1, 0>();
  reg_nik<ElemInt, 2, 3>();
  #if XV_RECL != 0 && XV_RECL != 10
  reg_kir<ElemRaw>(1);
  reg_kir<ElemRaw>(2);
  reg_kir<ElemUptr>(3);
  reg_kir<ElemUptr>(4);
  reg_kir<ElemUptr>(1);
  reg_kir<ElemRaw>(4);
  reg_kir<ElemUptr>(2);
  {
    QParams p;
    p.prop = "C06";
    p.k = 70000; // one segment larger than 2^16 entries
    reg_big<KfifoAd<KIR<ElemUptr>, ElemUptr>>("big_kir_k70000_uptr", p);
    p.k = 3;
    reg_big<KfifoAd<KIR<ElemRaw>, ElemRaw>>("big_kir_k3_raw", p);
  }
  #endif
}
const char* scenario_name() {
  static std::string n = std::string("queues.") + xv::RNAME;
  return n.c_str();
}
#else
template <class E>
using VYU = xenium::vyukov_bounded_queue<typename E::type>;
template <class E, unsigned Retries>
using NIB = xenium::nikolaev_bounded_queue<typename E::type, xp::pop_retries<Retries>>;
template <class E>
using KIB = xenium::kirsch_bounded_kfifo_queue<typename E::type>;

template <class E>
using VYUW = xenium::vyukov_bounded_queue<typename E::type, xp::default_to_weak<true>>;
template <class E>
void reg_vyuw(int64_t cap) {
  QParams p;
  p.cap = cap;
  p.prop = "C05";
  reg<VyukovAd<VYUW<E>, E, true>>(fmt("vyu_dw_c%d_%s", (int)cap, E::name), p);
}
template <class E>
void reg_vyu(int64_t cap) {
  QParams p;
  p.cap = cap;
  p.prop = "C05";
  reg<VyukovAd<VYU<E>, E>>(fmt("vyu_c%d_%s", (int)cap, E::name), p);
}
template <class E, unsigned Retries>
void reg_nib(int64_t cap) {
  QParams p;
  p.cap = cap;
  p.prop = "C05";
  reg<NikBoundedAd<NIB<E, Retries>, E>>(fmt("nib_c%d_r%u_%s", (int)cap, Retries, E::name), p);
}
template <class E>
void reg_kib(int64_t k, int64_t segs) {
  QParams p;
  p.k = k;
  p.segments = segs;
  p.prop = "C06";
  reg<BoundedKfifoAd<KIB<E>, E>>(fmt("kib_k%d_s%d_%s", (int)k, (int)segs, E::name), p);
}
void register_all() {
  reg_vyu<ElemInt>(2);
  reg_vyu<ElemTok>(2);
  reg_vyu<ElemUptr>(4);
  reg_vyu<ElemRaw>(4);
  reg_vyu<ElemTok>(8);
  reg_vyuw<ElemTok>(2);
  reg_vyuw<ElemUptr>(4);
  reg_nib<ElemInt, 0>(1);
  reg_nib<ElemTok, 1>(2);
  reg_nib<ElemUptr, 0>(3);
  reg_nib<ElemRaw, 1>(5);
  reg_nib<ElemTok, 0>(8);
  reg_nib<ElemUptr, 1>(1);
  reg_kib<ElemRaw>(1, 1);
  reg_kib<ElemRaw>(1, 3);
  reg_kib<ElemUptr>(2, 2);
  reg_kib<ElemRaw>(3, 2);
  reg_kib<ElemUptr>(2, 1);
  reg_kib<ElemRaw>(4, 3);
  reg_kib<ElemUptr>(3, 5);
  reg_kib<ElemUptr>(2, 3);
  // large constructions: k * segments just below, at and above 2^16
  auto big = [](int64_t k, int64_t segs, bool uptr) {
    QParams p;
    p.k = k;
    p.segments = segs;
    p.prop = "C06";
    if (uptr)
      reg_big<BoundedKfifoAd<KIB<ElemUptr>, ElemUptr>>(fmt("big_kib_k%d_s%d_uptr", (int)k, (int)segs), p);
    else
      reg_big<BoundedKfifoAd<KIB<ElemRaw>, ElemRaw>>(fmt("big_kib_k%d_s%d_raw", (int)k, (int)segs), p);
  };
  big(3, 21845, false);  // 65535
  big(4, 16384, true);   // 65536
  big(5, 13312, false);  // 66560
  big(1, 131072, true);  // 2^17, k = 1 (strict FIFO)
  big(256, 257, false);  // 65792 with a large k
  big(2, 20000, true);   // 40000: large but below the limit (control)
}
const char* scenario_name() { return "queues.norecl"; }
#endif

uint64_t random_hook() { return xrt::rnd(); }
} // namespace

int main(int argc, char** argv) {
  xrt::quiet_begin(); // the main thread is a monitor by default; library calls are bracketed by quiet_end/begin
  xenium::utils::verif_random_hook = random_hook;
  register_all();
  ScenarioDef def;
  def.name = scenario_name();
  for (auto& c : table())
    def.configs.push_back(c.name);
  def.run = [](const std::string& cfg, const ExecCtx& ctx, ExecOut& out) {
    for (auto& c : table())
      if (c.name == cfg) {
        c.run(ctx, out);
        return;
      }
  };
  return scenario_main(argc, argv, def);
}
