// Scenario "queues": C04 (MS / ramalhete / nikolaev FIFO), C05 (bounded FIFOs), C06 (k-FIFO), C07 (element ownership).
// Build variants: -DXV_RECL=<n> selects the reclaimer for the reclaimer-parameterised queues;
//                 -DXV_NORECL builds the reclaimer-free queues (vyukov_bounded, nikolaev_bounded, kirsch_bounded).
#include "harness.h"
#include "../monitors/elements.h"
#include "../monitors/models.h"
#include "reclaimers.h"

#include <xenium/kirsch_bounded_kfifo_queue.hpp>
#include <xenium/kirsch_kfifo_queue.hpp>
#include <xenium/michael_scott_queue.hpp>
#include <xenium/nikolaev_bounded_queue.hpp>
#include <xenium/nikolaev_queue.hpp>
#include <xenium/ramalhete_queue.hpp>
#include <xenium/vyukov_bounded_queue.hpp>

using namespace hz;
using namespace mon;

namespace {

struct QParams {
  int64_t cap = 0;      // bounded: constructor argument
  int64_t k = 1;        // k-FIFO
  int64_t segments = 0; // bounded k-FIFO
  unsigned epn = 0;     // entries per node (for shaping the prefix)
  const char* prop = "C04";
};

// ---- adapters -------------------------------------------------------------------------------------------------
template <class Q, class E>
struct UnboundedAd {
  using Elem = E;
  using T = typename E::type;
  static constexpr bool bounded = false;
  static constexpr bool has_weak = false;
  static constexpr bool push_by_value = true;
  static constexpr bool strong_lockfree = true;
  Q q;
  explicit UnboundedAd(const QParams&) {}
  bool push(T& v, bool) {
    q.push(std::move(v));
    return true;
  }
  bool pop(T& out, int variant, bool) {
    if (variant == 0)
      return q.try_pop(out);
    auto o = q.pop();
    if (!o.has_value())
      return false;
    out = std::move(*o);
    return true;
  }
  QueueModel model(const QParams&) const { return QueueModel{}; }
};

template <class Q, class E>
struct KfifoAd {
  using Elem = E;
  using T = typename E::type;
  static constexpr bool bounded = false;
  static constexpr bool has_weak = false;
  static constexpr bool push_by_value = true;
  static constexpr bool strong_lockfree = true;
  Q q;
  explicit KfifoAd(const QParams& p) : q((uint64_t)p.k) {}
  bool push(T& v, bool) {
    q.push(std::move(v));
    return true;
  }
  bool pop(T& out, int variant, bool) {
    if (variant == 0)
      return q.try_pop(out);
    auto o = q.pop();
    if (!o.has_value())
      return false;
    out = std::move(*o);
    return true;
  }
  QueueModel model(const QParams& p) const {
    QueueModel m;
    m.k = p.k;
    m.pop_fail = PE_KFIFO;
    return m;
  }
};

template <class Q, class E>
struct BoundedKfifoAd {
  using Elem = E;
  using T = typename E::type;
  static constexpr bool bounded = true;
  static constexpr bool has_weak = false;
  static constexpr bool push_by_value = true;
  static constexpr bool strong_lockfree = true;
  Q q;
  explicit BoundedKfifoAd(const QParams& p) : q((uint64_t)p.k, (uint64_t)p.segments) {}
  bool push(T& v, bool) { return q.try_push(std::move(v)); }
  bool pop(T& out, int variant, bool) {
    if (variant == 0)
      return q.try_pop(out);
    auto o = q.pop();
    if (!o.has_value())
      return false;
    out = std::move(*o);
    return true;
  }
  QueueModel model(const QParams& p) const {
    QueueModel m;
    m.k = p.k;
    m.capacity = p.k * p.segments;
    m.pop_fail = PE_KFIFO;
    m.push_fail = PF_KFIFO;
    m.kfifo_min_full = (p.segments - 1) * p.k + 1;
    return m;
  }
};

template <class Q, class E>
struct NikBoundedAd {
  using Elem = E;
  using T = typename E::type;
  static constexpr bool bounded = true;
  static constexpr bool has_weak = false;
  static constexpr bool push_by_value = true;
  static constexpr bool strong_lockfree = true;
  Q q;
  explicit NikBoundedAd(const QParams& p) : q((size_t)p.cap) {}
  bool push(T& v, bool) { return q.try_push(std::move(v)); }
  bool pop(T& out, int variant, bool) {
    if (variant == 0)
      return q.try_pop(out);
    auto o = q.pop();
    if (!o.has_value())
      return false;
    out = std::move(*o);
    return true;
  }
  QueueModel model(const QParams&) const {
    QueueModel m;
    m.capacity = (int64_t)q.capacity();
    m.push_fail = PF_FULL_INFLIGHT;
    return m;
  }
};

template <class Q, class E>
struct VyukovAd {
  using Elem = E;
  using T = typename E::type;
  static constexpr bool bounded = true;
  static constexpr bool has_weak = true;
  static constexpr bool push_by_value = false; // perfect forwarding: a rejected value stays with the caller
  static constexpr bool strong_lockfree = false;
  Q q;
  explicit VyukovAd(const QParams& p) : q((size_t)p.cap) {}
  bool push(T& v, bool weak) { return weak ? q.try_push_weak(std::move(v)) : q.try_push_strong(std::move(v)); }
  bool pop(T& out, int variant, bool weak) {
    if (weak)
      return q.try_pop_weak(out);
    if (variant == 0)
      return q.try_pop_strong(out);
    auto o = q.pop(); // default_to_weak = false
    if (!o.has_value())
      return false;
    out = std::move(*o);
    return true;
  }
  QueueModel model(const QParams& p) const {
    QueueModel m;
    m.capacity = p.cap;
    m.push_fail = PF_FULL;
    return m;
  }
};

// ---- one execution ----------------------------------------------------------------------------------------------
struct POp {
  uint8_t kind;
  int64_t value;
  uint8_t variant;
  bool weak;
};

template <class Ad>
struct Worker {
  Ad* ad;
  std::vector<POp> prog;
  std::vector<OpRec> recs;
  Recorder rec;
  int tid;
};

template <class Ad>
void exec_op(Ad* ad, const POp& p, OpRec& o, const Recorder& rec, int tid) {
  using E = typename Ad::Elem;
  using T = typename E::type;
  o.thread = (uint8_t)tid;
  o.kind = p.kind;
  o.b = p.weak ? 1 : 0;
  if (p.kind == Q_PUSH) {
    o.a = p.value;
    T v = E::make(p.value);
    if (E::owned)
      elems().pushing(p.value);
    rec.begin(o);
    xrt::op_begin(Q_PUSH, p.weak || Ad::strong_lockfree);
    bool ok = ad->push(v, p.weak);
    xrt::op_end();
    o.r = ok ? 1 : 0;
    rec.end(o);
    if (E::owned) {
      elems().push_returned(p.value, ok);
      if (!ok) {
        if (E::holds(v))
          E::consume(v); // the caller still owns it and destroys it itself
        else if (!Ad::push_by_value)
          elems().err("elem-rejected-but-taken", fmt("rejected try_push took value %" PRId64 " away from the caller", p.value));
        else if (E::queue_owns && elems().alive(p.value))
          elems().err("elem-leaked", fmt("value %" PRId64 " was rejected, taken from the caller and not destroyed", p.value));
      } else if (E::holds(v) && Ad::push_by_value && E::queue_owns) {
        elems().err("elem-harness", "accepted push left the value in the caller's handle");
      }
    }
    if (ok && std::is_pointer<T>::value)
      v = E::empty();
  } else {
    T out = E::empty();
    rec.begin(o);
    xrt::op_begin(Q_POP, p.weak || Ad::strong_lockfree);
    bool ok = ad->pop(out, p.variant, p.weak);
    xrt::op_end();
    o.r = ok ? 1 : 0;
    if (ok)
      o.r2 = E::id_of(out);
    rec.end(o);
    if (ok && E::owned) {
      elems().to_consumer(o.r2);
      E::consume(out);
    }
  }
}

template <class Ad>
void worker_body(void* p) {
  auto* w = (Worker<Ad>*)p;
  for (size_t i = 0; i < w->prog.size(); ++i)
    exec_op(w->ad, w->prog[i], w->recs[i], w->rec, w->tid);
}

template <class Ad>
void run_queue(const QParams& prm, const ExecCtx& ctx, ExecOut& out) {
  using E = typename Ad::Elem;
  Rng rng(ctx.seed);
  elems().reset();
  // ---- program
  int nthreads = rng.range(2, 4);
  int maxops = nthreads == 4 ? 5 : 6;
  int64_t next_id = 1;
  std::vector<Worker<Ad>> workers((size_t)nthreads);
  int flavour = (int)rng.below(4); // 0 mixed, 1 producers vs consumers, 2 push-heavy, 3 pop-heavy
  for (int t = 0; t < nthreads; ++t) {
    Worker<Ad>& w = workers[(size_t)t];
    int nops = rng.range(1, maxops);
    for (int i = 0; i < nops; ++i) {
      bool push;
      switch (flavour) {
      case 1: push = t % 2 == 0; break;
      case 2: push = rng.chance(3, 4); break;
      case 3: push = rng.chance(1, 4); break;
      default: push = rng.chance(1, 2);
      }
      POp p;
      p.kind = push ? Q_PUSH : Q_POP;
      p.value = push ? ((int64_t)(t + 1) << 8 | next_id++) : 0;
      p.variant = (uint8_t)rng.below(2);
      p.weak = Ad::has_weak && rng.chance(1, 3);
      w.prog.push_back(p);
    }
    w.recs.resize(w.prog.size());
    w.rec.weak = ctx.weak;
    w.tid = t + 1;
  }
  // sequential prefix on the main thread: fills nodes / rings so that hand-over happens inside the concurrent part
  int64_t span = prm.cap > 0 ? prm.cap : prm.k * (prm.segments > 0 ? prm.segments : 2);
  if (prm.epn)
    span = prm.epn;
  if (span > 9)
    span = 9;
  int npre_push = (int)rng.below((uint32_t)span + 2);
  int npre_pop = rng.chance(1, 2) ? (int)rng.below((uint32_t)npre_push + 1) : 0;
  History h;
  h.weak = ctx.weak;
  Recorder mrec{ctx.weak};
  Ad* ad;
  {
    xrt::quiet_end();
    ad = new Ad(prm);
    xrt::quiet_begin();
  }
  auto main_op = [&](const POp& p) {
    OpRec o;
    xrt::quiet_end();
    exec_op(ad, p, o, mrec, 0);
    xrt::quiet_begin();
    h.ops.push_back(o);
    return o;
  };
  for (int i = 0; i < npre_push; ++i)
    main_op(POp{Q_PUSH, (int64_t)(9 << 8 | next_id++), 0, false});
  for (int i = 0; i < npre_pop; ++i)
    main_op(POp{Q_POP, 0, (uint8_t)rng.below(2), false});
  // ---- concurrent part
  std::vector<xrt::ThreadSpec> specs((size_t)nthreads);
  for (int t = 0; t < nthreads; ++t) {
    workers[(size_t)t].ad = ad;
    specs[(size_t)t].fn = worker_body<Ad>;
    specs[(size_t)t].arg = &workers[(size_t)t];
    if (rng.chance(1, 5))
      specs[(size_t)t].start_delay = rng.below(120);
  }
  xrt::RunResult rr = xrt::run(ctx.runcfg(), specs.data(), nthreads);
  for (auto& w : workers)
    for (auto& o : w.recs)
      h.ops.push_back(o);
  // ---- drain (fully, partially or not at all) and destroy
  int drain_mode = (int)rng.below(10); // 0..5 full, 6..7 partial, 8..9 none
  bool full_drain = drain_mode <= 5;
  int max_drain = full_drain ? 64 : drain_mode <= 7 ? (int)rng.below(3) + 1 : 0;
  int drained = 0;
  for (int i = 0; i < max_drain && h.ops.size() < 63; ++i) {
    OpRec o = main_op(POp{Q_POP, 0, (uint8_t)rng.below(2), false});
    if (!o.r)
      break;
    ++drained;
  }
  QueueModel model = ad->model(prm);
  model.weak = ctx.weak;
  elems().queue_dying = true;
  {
    xrt::quiet_end();
    delete ad;
    xrt::quiet_begin();
  }
  // ---- judge
  compute_overlaps(h);
  out.hist_hash = history_hash(h);
  out.nontrivial = history_nontrivial(h);
  out.history = history_str(h, queue_op_str);
  counters().add("ops", h.ops.size());
  counters().add("drained", (uint64_t)drained);
  if (rr.drain_mode)
    counters().add("budget_drain_mode");
  for (auto& o : h.ops) {
    if (o.kind == Q_POP && !o.r && o.overlap && o.thread)
      counters().add("empty_under_overlap");
    if (o.kind == Q_PUSH && !o.r)
      counters().add(o.overlap ? "rejected_under_overlap" : "rejected_sequential");
  }
  if (xrt::has_violation())
    return; // reported by the caller with the runtime's kind
  // linearizability
  WglResult wr = wgl_check(h, model, QueueModel::State{});
  counters().add("wgl_nodes", wr.nodes);
  if (wr.verdict == V_INCONCLUSIVE) {
    out.inconclusive = true;
    counters().add("wgl_inconclusive");
  } else if (wr.verdict == V_VIOLATION) {
    std::string pre;
    for (int i : wr.best_prefix)
      pre += queue_op_str(h.ops[(size_t)i]) + "; ";
    // Which kind of violation? If the history becomes linearizable once the 'empty' / 'rejected' verdicts of the worker threads
    // are not judged, every value was delivered exactly once and in order and only such a verdict is wrong (the queue was not
    // empty / full at any instant of that call): kind false-empty-or-full. Otherwise values were lost, duplicated, invented
    // or reordered: kind not-linearizable.
    const char* kind = "not-linearizable";
    if (!model.weak) {
      auto relaxed = model;
      relaxed.weak = true;
      WglResult wr2 = wgl_check(h, relaxed, QueueModel::State{});
      counters().add("wgl_nodes", wr2.nodes);
      if (wr2.verdict == V_OK)
        kind = "false-empty-or-full";
    }
    out.fail(prm.prop, kind,
             fmt("no linearization of the history w.r.t. the %s model (k=%" PRId64 " cap=%" PRId64
                 ")%s; longest legal prefix: %s",
                 model.k > 1 ? "k-FIFO" : "FIFO", model.k, model.capacity,
                 kind[0] == 'f' ? " - only an 'empty' / 'rejected' verdict of a worker thread is wrong, no value lost or reordered" : "", pre.c_str()));
    return;
  }
  // element ownership census (C07)
  if (E::owned) {
    auto& reg = elems();
    if (!reg.error_kind.empty()) {
      out.fail("C07", reg.error_kind.c_str(), reg.error_msg);
      return;
    }
    uint64_t in_queue = 0;
    for (auto& kv : reg.m) {
      const ERec& r = kv.second;
      if (r.state == E_QUEUE) {
        ++in_queue;
        if (E::queue_owns && r.dtors != 1) {
          out.fail("C07", "elem-leaked", fmt("value %" PRId64 " was still in the destroyed queue but was destroyed %d times",
                                             kv.first, r.dtors));
          return;
        }
        if (!E::queue_owns && r.dtors != 0) {
          out.fail("C07", "elem-raw-deleted", fmt("raw pointer value %" PRId64 " was deleted by the queue", kv.first));
          return;
        }
      } else if (r.dtors != 1) {
        out.fail("C07", "elem-count", fmt("value %" PRId64 " in state %d destroyed %d times", kv.first, r.state, r.dtors));
        return;
      }
    }
    counters().add("destroyed_with_elements", in_queue ? 1 : 0);
    counters().add("elements_in_destroyed_queue", in_queue);
    if (full_drain && in_queue && h.ops.size() < 63) {
      out.fail(prm.prop, "drain-incomplete", fmt("%" PRIu64 " accepted values were neither popped nor drained", in_queue));
      return;
    }
  }
}

} // namespace

// ---- configuration table ------------------------------------------------------------------------------------------
namespace {
struct Cfg {
  std::string name;
  std::function<void(const ExecCtx&, ExecOut&)> run;
};
std::vector<Cfg>& table() {
  static std::vector<Cfg>* t = new std::vector<Cfg>();
  return *t;
}
template <class Ad>
void reg(const std::string& name, QParams p) {
  table().push_back({name, [p](const ExecCtx& c, ExecOut& o) { run_queue<Ad>(p, c, o); }});
}

namespace xp = xenium::policy;

#ifndef XV_NORECL
using R = xv::R;
template <class E>
using MS = xenium::michael_scott_queue<typename E::type, xp::reclaimer<R>>;
template <class E, unsigned N, unsigned Retries>
using RAM = xenium::ramalhete_queue<typename E::type, xp::reclaimer<R>, xp::entries_per_node<N>, xp::pop_retries<Retries>>;
template <class E, unsigned N, unsigned Retries>
using NIK = xenium::nikolaev_queue<typename E::type, xp::reclaimer<R>, xp::entries_per_node<N>, xp::pop_retries<Retries>>;
template <class E>
using KIR = xenium::kirsch_kfifo_queue<typename E::type, xp::reclaimer<R>>;

template <class E, unsigned N, unsigned Retries>
void reg_ram() {
  QParams p;
  p.epn = N;
  reg<UnboundedAd<RAM<E, N, Retries>, E>>(fmt("ram_e%u_r%u_%s", N, Retries, E::name), p);
}
template <class E, unsigned N, unsigned Retries>
void reg_nik() {
  QParams p;
  p.epn = N;
  reg<UnboundedAd<NIK<E, N, Retries>, E>>(fmt("nik_e%u_r%u_%s", N, Retries, E::name), p);
}
template <class E>
void reg_ms() {
  QParams p;
  p.epn = 1;
  reg<UnboundedAd<MS<E>, E>>(fmt("ms_%s", E::name), p);
}
template <class E>
void reg_kir(int64_t k) {
  QParams p;
  p.k = k;
  p.prop = "C06";
  reg<KfifoAd<KIR<E>, E>>(fmt("kir_k%d_%s", (int)k, E::name), p);
}

void register_all() {
  reg_ms<ElemInt>();
  reg_ms<ElemTok>();
  reg_ms<ElemUptr>();
  reg_ms<ElemRaw>();
  reg_ram<ElemRaw, 1, 0>();
  reg_ram<ElemUptr, 2, 1>();
  reg_ram<ElemInt, 3, 3>();
  reg_ram<ElemUptr, 4, 0>();
  reg_ram<ElemRaw, 5, 1>();
  reg_ram<ElemInt, 7, 0>();
  reg_ram<ElemUptr, 8, 3>();
  reg_ram<ElemRaw, 11, 1>();
  reg_ram<ElemUptr, 16, 0>();
  reg_ram<ElemInt, 2, 0>();
  reg_nik<ElemInt, 1, 0>();
  reg_nik<ElemTok, 2, 1>();
  reg_nik<ElemUptr, 4, 3>();
  reg_nik<ElemRaw, 8, 0>();
  reg_nik<ElemUptr, 2, 0>();
  reg_nik<ElemTok, 1, 1>();
  reg_nik<ElemUptr, 1, 0>();
  reg_nik<ElemInt, 2, 3>();
  #if XV_RECL != 0 && XV_RECL != 10
  reg_kir<ElemRaw>(1);
  reg_kir<ElemRaw>(2);
  reg_kir<ElemUptr>(3);
  reg_kir<ElemUptr>(4);
  reg_kir<ElemUptr>(1);
  reg_kir<ElemRaw>(4);
  reg_kir<ElemUptr>(2);
  #endif
}
const char* scenario_name() {
  static std::string n = std::string("queues.") + xv::RNAME;
  return n.c_str();
}
#else
template <class E>
using VYU = xenium::vyukov_bounded_queue<typename E::type>;
template <class E, unsigned Retries>
using NIB = xenium::nikolaev_bounded_queue<typename E::type, xp::pop_retries<Retries>>;
template <class E>
using KIB = xenium::kirsch_bounded_kfifo_queue<typename E::type>;

template <class E>
void reg_vyu(int64_t cap) {
  QParams p;
  p.cap = cap;
  p.prop = "C05";
  reg<VyukovAd<VYU<E>, E>>(fmt("vyu_c%d_%s", (int)cap, E::name), p);
}
template <class E, unsigned Retries>
void reg_nib(int64_t cap) {
  QParams p;
  p.cap = cap;
  p.prop = "C05";
  reg<NikBoundedAd<NIB<E, Retries>, E>>(fmt("nib_c%d_r%u_%s", (int)cap, Retries, E::name), p);
}
template <class E>
void reg_kib(int64_t k, int64_t segs) {
  QParams p;
  p.k = k;
  p.segments = segs;
  p.prop = "C06";
  reg<BoundedKfifoAd<KIB<E>, E>>(fmt("kib_k%d_s%d_%s", (int)k, (int)segs, E::name), p);
}
void register_all() {
  reg_vyu<ElemInt>(2);
  reg_vyu<ElemTok>(2);
  reg_vyu<ElemUptr>(4);
  reg_vyu<ElemRaw>(4);
  reg_vyu<ElemTok>(8);
  reg_nib<ElemInt, 0>(1);
  reg_nib<ElemTok, 1>(2);
  reg_nib<ElemUptr, 0>(3);
  reg_nib<ElemRaw, 1>(5);
  reg_nib<ElemTok, 0>(8);
  reg_nib<ElemUptr, 1>(1);
  reg_kib<ElemRaw>(1, 1);
  reg_kib<ElemRaw>(1, 3);
  reg_kib<ElemUptr>(2, 2);
  reg_kib<ElemRaw>(3, 2);
  reg_kib<ElemUptr>(2, 1);
  reg_kib<ElemRaw>(4, 3);
  reg_kib<ElemUptr>(3, 5);
  reg_kib<ElemUptr>(2, 3);
}
const char* scenario_name() { return "queues.norecl"; }
#endif

uint64_t random_hook() { return xrt::rnd(); }
} // namespace

int main(int argc, char** argv) {
  xrt::quiet_begin(); // the main thread is a monitor by default; library calls are bracketed by quiet_end/begin
  xenium::utils::verif_random_hook = random_hook;
  register_all();
  ScenarioDef def;
  def.name = scenario_name();
  for (auto& c : table())
    def.configs.push_back(c.name);
  def.run = [](const std::string& cfg, const ExecCtx& ctx, ExecOut& out) {
    for (auto& c : table())
      if (c.name == cfg) {
        c.run(ctx, out);
        return;
      }
  };
  return scenario_main(argc, argv, def);
}
