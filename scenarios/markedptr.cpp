// markedptr.cpp - C15 part (a)/(b): marked_ptr bit model and concurrent_ptr as an atomic marked_ptr.
// Native program (no xrt): built with -fsanitize=address,undefined so that an over-wide shift or a signed overflow in the bit
// arithmetic is reported by UBSan; the reference model below decides the values.
//   configs: w<MarkBits>_u<MaxUpperMarkBits>  for MarkBits 0..32 and MaxUpperMarkBits in {16 (default), 8, 4, 0}
// One "execution" = one batch of pointer x mark combinations (corner patterns + seeded random ones).
#include <xenium/marked_ptr.hpp>
#include <xenium/reclamation/detail/concurrent_ptr.hpp>

#include <atomic>
#include <cinttypes>
#include <cstdarg>
#include <cstdio>
#include <cstring>
#include <functional>
#include <string>
#include <utility>
#include <vector>

namespace {

struct Obj {
  char c;
};

std::string fmt(const char* f, ...) __attribute__((format(printf, 1, 2)));
std::string fmt(const char* f, ...) {
  char buf[1024];
  va_list ap;
  va_start(ap, f);
  vsnprintf(buf, sizeof buf, f, ap);
  va_end(ap);
  return buf;
}

uint64_t splitmix(uint64_t& x) {
  uint64_t z = (x += 0x9e3779b97f4a7c15ull);
  z = (z ^ (z >> 30)) * 0xbf58476d1ce4e5b9ull;
  z = (z ^ (z >> 27)) * 0x94d049bb133111ebull;
  return z ^ (z >> 31);
}

template <class T, class MP>
struct DummyGuard { // concurrent_ptr only needs the type for its guard_ptr alias
  T* get() const { return nullptr; }
};

struct Result {
  uint64_t checks = 0, combos = 0;
  std::string err;
};

// reference model: where do pointer and mark bits live?
template <uintptr_t MarkBits, uintptr_t MaxUpper>
struct Layout {
  static constexpr uintptr_t lower = MarkBits < MaxUpper ? 0 : MarkBits - MaxUpper;
  static constexpr uintptr_t upper = MarkBits - lower;
  static uint64_t pointer_mask() {
    uint64_t m = ~0ull;
    if (upper)
      m &= (upper >= 64 ? 0 : (~0ull >> upper));
    if (lower)
      m &= (~0ull << lower);
    return m;
  }
  static uint64_t mark_mask() { return MarkBits == 0 ? 0 : (MarkBits >= 64 ? ~0ull : ((1ull << MarkBits) - 1)); }
};

template <uintptr_t MarkBits, uintptr_t MaxUpper>
void run_batch(uint64_t seed, Result& res) {
  using MP = xenium::marked_ptr<Obj, MarkBits, MaxUpper>;
  using L = Layout<MarkBits, MaxUpper>;
  const uint64_t pmask = L::pointer_mask();
  const uint64_t mmask = L::mark_mask();
  std::vector<uint64_t> ptrs = {0, pmask, pmask & 0x00007ffff7a01230ull, pmask & 0x0000555555554000ull, pmask & ~(pmask >> 1) /*highest bit*/,
                                pmask & (~pmask + 1) /*lowest bit*/, pmask & 0xaaaaaaaaaaaaaaaaull, pmask & 0x5555555555555555ull};
  std::vector<uint64_t> marks = {0, mmask, mmask >> 1, mmask & 0xaaaaaaaaull, mmask & 0x55555555ull, 1 & mmask, mmask & ~(mmask >> 1),
                                 // the bits that end up in the lower / upper part of the word
                                 mmask & ((1ull << L::lower) - 1), mmask & ~((1ull << L::lower) - 1)};
  uint64_t x = seed;
  for (int i = 0; i < 24; ++i)
    ptrs.push_back(splitmix(x) & pmask);
  for (int i = 0; i < 24; ++i)
    marks.push_back(splitmix(x) & mmask);
  auto fail = [&](const std::string& what, uint64_t p, uint64_t m) {
    if (res.err.empty())
      res.err = fmt("marked_ptr<T,%d,%d> pointer=%016" PRIx64 " mark=%" PRIx64 ": ", (int)MarkBits, (int)MaxUpper, p, m) + what;
  };
  for (uint64_t p : ptrs)
    for (uint64_t m : marks) {
      ++res.combos;
      Obj* raw = reinterpret_cast<Obj*>(p);
      MP a = [&] {
        if constexpr (MarkBits == 0)
          return MP(raw);
        else
          return MP(raw, m);
      }();
      uint64_t got_mark = [&]() -> uint64_t {
        if constexpr (MarkBits == 0)
          return 0;
        else
          return a.mark();
      }();
      ++res.checks;
      if (reinterpret_cast<uint64_t>(a.get()) != p)
        fail(fmt("get() returns %016" PRIx64, reinterpret_cast<uint64_t>(a.get())), p, m);
      if (got_mark != m)
        fail(fmt("mark() returns %" PRIx64, got_mark), p, m);
      if (static_cast<bool>(a) != (p != 0 || m != 0))
        fail("operator bool disagrees with get() != nullptr || mark() != 0", p, m);
      // value equality
      MP b = a;
      if (!(a == b) || (a != b))
        fail("a copy compares unequal", p, m);
      for (uint64_t p2 : {ptrs[1], ptrs[9]})
        for (uint64_t m2 : {marks[1], marks[10]}) {
          MP c = [&] {
            if constexpr (MarkBits == 0)
              return MP(reinterpret_cast<Obj*>(p2));
            else
              return MP(reinterpret_cast<Obj*>(p2), m2);
          }();
          bool same = p2 == p && (MarkBits == 0 || m2 == m);
          ++res.checks;
          if ((a == c) != same || (a != c) == same)
            fail(fmt("equality with (%016" PRIx64 ", %" PRIx64 ") is %d, expected %d", p2, m2, (int)(a == c), (int)same), p, m);
        }
      b.reset();
      if (b.get() != nullptr || static_cast<bool>(b))
        fail("reset() does not yield the null pointer with mark 0", p, m);
      // concurrent_ptr behaves as an atomic marked_ptr (the only mark widths it is instantiated with in the library are small, but
      // the template accepts every N)
      if constexpr (MaxUpper == XENIUM_MAX_UPPER_MARK_BITS) {
        using CP = xenium::reclamation::detail::concurrent_ptr<Obj, MarkBits, DummyGuard>;
        CP cp;
        if (cp.load() != MP())
          fail("default concurrent_ptr is not null", p, m);
        cp.store(a, std::memory_order_relaxed);
        if (cp.load(std::memory_order_relaxed) != a)
          fail("concurrent_ptr load after store differs", p, m);
        MP expected = MP();
        bool ok = cp.compare_exchange_strong(expected, MP(), std::memory_order_relaxed);
        bool should = (a == MP());
        if (ok != should || expected != a)
          fail("compare_exchange_strong(expected = null) misbehaves", p, m);
        expected = a;
        MP other = ptrs.size() > 10 ? [&] {
          if constexpr (MarkBits == 0)
            return MP(reinterpret_cast<Obj*>(ptrs[10]));
          else
            return MP(reinterpret_cast<Obj*>(ptrs[10]), marks[11]);
        }()
                                    : MP();
        cp.store(a);
        if (!cp.compare_exchange_strong(expected, other, std::memory_order_acq_rel, std::memory_order_relaxed) || cp.load() != other)
          fail("compare_exchange_strong(expected = current) failed or stored a different value", p, m);
        ++res.checks;
      }
    }
}

struct Cfg {
  std::string name;
  std::function<void(uint64_t, Result&)> run;
};
std::vector<Cfg>& table() {
  static std::vector<Cfg> t;
  return t;
}

template <uintptr_t MaxUpper, uintptr_t... W>
void reg_widths(std::integer_sequence<uintptr_t, W...>) {
  (table().push_back({fmt("w%d_u%d", (int)W, (int)MaxUpper), [](uint64_t seed, Result& r) { run_batch<W, MaxUpper>(seed, r); }}), ...);
}

std::string json_escape(const std::string& s) {
  std::string o;
  for (char c : s) {
    if (c == '"' || c == '\\') {
      o += '\\';
      o += c;
    } else if (c == '\n')
      o += "\\n";
    else
      o += c;
  }
  return o;
}
} // namespace

int main(int argc, char** argv) {
  reg_widths<16>(std::make_integer_sequence<uintptr_t, 33>());
  reg_widths<8>(std::make_integer_sequence<uintptr_t, 33>());
  reg_widths<4>(std::make_integer_sequence<uintptr_t, 33>());
  reg_widths<0>(std::make_integer_sequence<uintptr_t, 33>());
  std::string cfg = "all", hashes_out;
  uint64_t seed = 1, execs = 10, from = 0;
  long only = -1;
  for (int i = 1; i < argc; ++i) {
    std::string a = argv[i];
    auto next = [&]() -> std::string { return i + 1 < argc ? argv[++i] : ""; };
    if (a == "--list") {
      for (auto& c : table())
        printf("%s\n", c.name.c_str());
      return 0;
    } else if (a == "--cfg")
      cfg = next();
    else if (a == "--seed")
      seed = strtoull(next().c_str(), nullptr, 10);
    else if (a == "--execs")
      execs = strtoull(next().c_str(), nullptr, 10);
    else if (a == "--from")
      from = strtoull(next().c_str(), nullptr, 10);
    else if (a == "--only")
      only = strtol(next().c_str(), nullptr, 10);
    else if (a == "--hashes-out")
      hashes_out = next();
    else if (a == "--mode" || a == "--window" || a == "--max-viol" || a == "--strategy")
      next();
  }
  int total_viol = 0;
  for (auto& c : table()) {
    if (cfg != "all" && ("," + cfg + ",").find("," + c.name + ",") == std::string::npos)
      continue;
    Result agg;
    uint64_t n = 0;
    int nviol = 0;
    for (uint64_t e = from; e < from + execs; ++e) {
      if (only >= 0 && (uint64_t)only != e)
        continue;
      Result r;
      c.run(seed * 1000003ull + e * 7919ull + std::hash<std::string>{}(c.name), r);
      ++n;
      agg.checks += r.checks;
      agg.combos += r.combos;
      if (!r.err.empty()) {
        ++nviol;
        ++total_viol;
        printf("{\"violation\":true,\"scenario\":\"markedptr\",\"config\":\"%s\",\"mode\":\"native\",\"prop\":\"C15\",\"kind\":\"marked-ptr-bits\",\"seed\":%" PRIu64
               ",\"from\":%" PRIu64 ",\"exec\":%" PRIu64 ",\"msg\":\"%s\",\"history\":\"\"}\n",
               c.name.c_str(), seed, from, e, json_escape(r.err).c_str());
        if (nviol >= 2)
          break;
      }
    }
    printf("{\"summary\":true,\"scenario\":\"markedptr\",\"config\":\"%s\",\"mode\":\"native\",\"seed\":%" PRIu64 ",\"execs\":%" PRIu64
           ",\"violations\":%d,\"inconclusive\":0,\"distinct\":%" PRIu64 ",\"distinct_nontrivial\":%" PRIu64
           ",\"counters\":{\"marked_ptr_combinations\":%" PRIu64 ",\"marked_ptr_checks\":%" PRIu64 "},\"samples\":[]}\n",
           c.name.c_str(), seed, n, nviol, n, n, agg.combos, agg.checks);
    if (!hashes_out.empty()) {
      FILE* f = fopen(hashes_out.c_str(), "a");
      if (f) {
        for (uint64_t e = 0; e < n; ++e)
          fprintf(f, "%016" PRIx64 "\n", std::hash<std::string>{}(c.name) * 31 + seed * 131 + e);
        fclose(f);
      }
    }
  }
  return total_viol ? 1 : 0;
}
