// Scenario "reclaim": reclaim_protocol<R> — C01 (no destruction under a guard), C02 (exactly-once destruction, flush),
// C15 (guard algebra + snapshot claims), C17 (thread generations / bookkeeping census). -DXV_RECL=<n> selects R.
#include "harness.h"
#include "../monitors/lifetime.h"
#include "reclaimers.h"

#include <memory>
#include <optional>

using namespace hz;
using namespace mon;

namespace {
using R = xv::R;
constexpr bool kLfrc = XV_RECL == 0 || XV_RECL == 10;
constexpr int NG = 3; // guard slots per thread

// ---- node types ---------------------------------------------------------------------------------------------------
template <bool Custom, size_t Mark>
struct NodeT;

template <bool Custom, size_t Mark>
struct DelT {
  int64_t token = -1;
  void operator()(NodeT<Custom, Mark>* n) const;
};

template <bool Custom, size_t Mark>
using NodeBase =
  typename R::template enable_concurrent_ptr<NodeT<Custom, Mark>, Mark,
                                             std::conditional_t<Custom, DelT<Custom, Mark>, std::default_delete<NodeT<Custom, Mark>>>>;

template <bool Custom, size_t Mark>
struct NodeT : NodeBase<Custom, Mark> {
  int64_t id;
  uint64_t canary;
  uint64_t payload;
  NodeT(int64_t i, bool dummy) : id(i), canary(0xC0FFEE00u + (uint64_t)i), payload((uint64_t)i * 7919u) {
    lifetime().created(this, i, dummy);
  }
  ~NodeT() override {
    lifetime().destroyed(this);
    canary = 0xDEADDEAD;
  }
};
template <bool Custom, size_t Mark>
void DelT<Custom, Mark>::operator()(NodeT<Custom, Mark>* n) const {
  lifetime().deleter_called(n, token);
  delete n;
}

enum ROp : uint8_t {
  R_PUBLISH, R_UNLINK, R_ACQUIRE, R_ACQ_IF_EQ, R_ACQ_IF_NE, R_COPY, R_MOVE, R_COPY_CTOR, R_MOVE_CTOR, R_SWAP, R_RESET,
  R_SELF_ASSIGN, R_DEREF, R_REGION_ENTER, R_REGION_LEAVE, R_RECLAIM_VIA_COPY, R_RECLAIM_DIRECT, R_NOPS
};
static const char* rop_name[] = {"publish", "unlink", "acquire", "acq_if_eq", "acq_if_ne", "copy", "move", "copy_ctor", "move_ctor",
                                 "swap", "reset", "self_assign", "deref", "region_enter", "region_leave", "reclaim_via_copy", "reclaim_direct"};
struct RInstr {
  uint8_t op, cell, a, b;
};

template <bool Custom, size_t Mark>
struct Env {
  using Node = NodeT<Custom, Mark>;
  using CPtr = typename R::template concurrent_ptr<Node, Mark>;
  using MPtr = typename CPtr::marked_ptr;
  using GPtr = typename CPtr::guard_ptr;
  using Del = DelT<Custom, Mark>;

  struct Shared {
    CPtr cell[3];
    int ncells;
    std::atomic<int64_t> next_id{1};
  };

  struct Worker {
    Shared* sh;
    std::vector<RInstr> prog;
    std::vector<OpRec> recs;
    bool weak;
    int tid;
    bool flusher = false;
    int flush_iters = 0;
    int flush_extra = 0;
    uint64_t seed;
  };

  static MPtr make_mp(Node* n, uintptr_t mark) {
    if constexpr (Mark == 0) {
      (void)mark;
      return MPtr(n);
    } else {
      return MPtr(n, mark % (1u << Mark));
    }
  }
  static uint64_t raw(const MPtr& p) { return ((uint64_t)(uintptr_t)p.get() << 4) | (uint64_t)p.mark(); }

  static void do_reclaim(GPtr& g, int64_t token) {
    lifetime().retire(g.get(), token);
    if constexpr (Custom)
      g.reclaim(Del{token});
    else
      g.reclaim();
  }

  // executes one instruction; guards = this thread's guard slots
  static void step(Worker& w, const RInstr& in, OpRec& o, GPtr* guards, std::vector<std::unique_ptr<typename R::region_guard>>& regions) {
    Shared& sh = *w.sh;
    auto& L = lifetime();
    Recorder rec{w.weak};
    o.thread = (uint8_t)w.tid;
    o.kind = in.op;
    o.a = in.cell;
    o.b = in.a;
    CPtr& cell = sh.cell[in.cell % sh.ncells];
    const int ci = in.cell % sh.ncells;
    rec.begin(o);
    switch (in.op) {
    case R_PUBLISH: {
      int64_t id = ((int64_t)w.tid << 16) | sh.next_id.fetch_add(1, std::memory_order_relaxed);
      Node* n = new Node(id, false);
      MPtr desired = make_mp(n, (uintptr_t)id);
      GPtr g;
      xrt::op_begin(in.op, true);
      g.acquire(cell, std::memory_order_acquire);
      L.guard_set(NG, g.get());
      MPtr expected = g;
      bool ok = cell.compare_exchange_strong(expected, desired, std::memory_order_acq_rel, std::memory_order_relaxed);
      xrt::op_end();
      rec.end(o);
      o.r = ok;
      o.r2 = id;
      if (ok) {
        L.cell_write(ci, raw(MPtr(g)), raw(desired), o.call, o.ret);
        if (g) {
          L.guard_clear(NG);
          do_reclaim(g, id ^ 0x55);
        }
      } else {
        L.expect_plain_delete(n);
        delete n;
      }
      L.guard_clear(NG);
      g.reset();
      break;
    }
    case R_UNLINK: {
      GPtr g;
      xrt::op_begin(in.op, true);
      g.acquire(cell, std::memory_order_acquire);
      L.guard_set(NG, g.get());
      bool ok = false;
      MPtr expected = g;
      if (g)
        ok = cell.compare_exchange_strong(expected, MPtr(nullptr), std::memory_order_acq_rel, std::memory_order_relaxed);
      xrt::op_end();
      rec.end(o);
      o.r = ok;
      if (ok) {
        o.r2 = g->id;
        L.cell_write(ci, raw(MPtr(g)), 0, o.call, o.ret);
        L.guard_clear(NG);
        do_reclaim(g, g->id ^ 0x77);
      }
      L.guard_clear(NG);
      g.reset();
      break;
    }
    case R_ACQUIRE: {
      GPtr& g = guards[in.a];
      L.guard_clear(in.a);
      xrt::op_begin(in.op, true);
      g.acquire(cell, std::memory_order_acquire);
      xrt::op_end();
      rec.end(o);
      L.guard_set(in.a, g.get());
      o.r = g ? 1 : 0;
      o.r2 = g ? g->id : 0;
      if (g && !w.weak)
        L.snapshot_obs(0, ci, raw(MPtr(g)), o.call, o.ret, g->id);
      break;
    }
    case R_ACQ_IF_EQ:
    case R_ACQ_IF_NE: {
      GPtr& g = guards[in.a];
      MPtr expected = cell.load(std::memory_order_relaxed);
      if (in.op == R_ACQ_IF_NE) {
        // a value that differs from the snapshot: other mark (if any mark bits), or the pointer of another guard / null
        if (Mark)
          expected = make_mp(expected.get(), expected.mark() + 1);
        else if (expected.get() != nullptr)
          expected = MPtr(nullptr);
        else
          expected = MPtr(guards[(in.a + 1) % NG].get());
      }
      L.guard_clear(in.a);
      xrt::op_begin(in.op, true);
      bool ok = g.acquire_if_equal(cell, expected, std::memory_order_acquire);
      xrt::op_end();
      rec.end(o);
      L.guard_set(in.a, g.get());
      o.r = ok;
      o.r2 = g ? g->id : 0;
      if (ok) {
        if (MPtr(g) != expected)
          L.err("C15", "acquire-if-equal-true-but-different", "acquire_if_equal returned true but the guard differs from expected");
        else if (g && !w.weak)
          L.snapshot_obs(0, ci, raw(expected), o.call, o.ret, g->id);
      } else {
        if (g)
          L.err("C15", "acquire-if-equal-false-nonempty", "acquire_if_equal returned false but left the guard non-empty");
        if (!w.weak && expected.get() != nullptr)
          L.snapshot_obs(1, ci, raw(expected), o.call, o.ret, 0);
      }
      break;
    }
    case R_COPY: {
      if (in.a == in.b)
        break;
      Node* src = guards[in.a].get();
      L.guard_clear(in.b);
      xrt::op_begin(in.op, true);
      guards[in.b] = guards[in.a];
      xrt::op_end();
      L.guard_set(in.b, guards[in.b].get(), true);
      if (guards[in.b].get() != src || guards[in.a].get() != src || guards[in.b].mark() != guards[in.a].mark())
        L.err("C15", "algebra-copy", "copy assignment did not share the object");
      break;
    }
    case R_MOVE: {
      if (in.a == in.b)
        break;
      Node* src = guards[in.a].get();
      const bool src_copy = L.guard_is_copy(in.a);
      L.guard_clear(in.b);
      xrt::op_begin(in.op, true);
      guards[in.b] = std::move(guards[in.a]);
      xrt::op_end();
      L.guard_set(in.b, guards[in.b].get(), src_copy);
      L.guard_set(in.a, guards[in.a].get());
      if (guards[in.b].get() != src || guards[in.a].get() != nullptr || (bool)guards[in.a])
        L.err("C15", "algebra-move", "move assignment did not transfer the object / empty the source");
      break;
    }
    case R_COPY_CTOR: {
      Node* src = guards[in.a].get();
      xrt::op_begin(in.op, true);
      {
        GPtr tmp(guards[in.a]);
        L.guard_set(NG + 1, tmp.get(), true);
        if (tmp.get() != src)
          L.err("C15", "algebra-copy-ctor", "copy construction did not share the object");
        if (tmp) {
          volatile uint64_t c = tmp->canary;
          (void)c;
        }
        L.guard_clear(NG + 1);
      }
      xrt::op_end();
      if (guards[in.a].get() != src)
        L.err("C15", "algebra-copy-ctor", "copy construction changed the source");
      break;
    }
    case R_MOVE_CTOR: {
      Node* src = guards[in.a].get();
      const bool src_copy = L.guard_is_copy(in.a);
      xrt::op_begin(in.op, true);
      {
        GPtr tmp(std::move(guards[in.a]));
        L.guard_set(NG + 1, tmp.get(), src_copy);
        L.guard_set(in.a, guards[in.a].get());
        if (tmp.get() != src || guards[in.a].get() != nullptr)
          L.err("C15", "algebra-move-ctor", "move construction did not transfer the object / empty the source");
        L.guard_clear(in.a);
        guards[in.a] = std::move(tmp);
        L.guard_set(in.a, guards[in.a].get(), src_copy);
        L.guard_clear(NG + 1);
      }
      xrt::op_end();
      if (guards[in.a].get() != src)
        L.err("C15", "algebra-move-ctor", "moving back did not restore the object");
      break;
    }
    case R_SWAP: {
      if (in.a == in.b)
        break;
      Node* x = guards[in.a].get();
      Node* y = guards[in.b].get();
      const bool xc = L.guard_is_copy(in.a), yc = L.guard_is_copy(in.b);
      xrt::op_begin(in.op, true);
      guards[in.a].swap(guards[in.b]);
      xrt::op_end();
      L.guard_set(in.a, guards[in.a].get(), yc);
      L.guard_set(in.b, guards[in.b].get(), xc);
      if (guards[in.a].get() != y || guards[in.b].get() != x)
        L.err("C15", "algebra-swap", "swap did not exchange the objects");
      break;
    }
    case R_RESET: {
      L.guard_clear(in.a);
      xrt::op_begin(in.op, true);
      guards[in.a].reset();
      if (in.b & 1)
        guards[in.a].reset(); // double reset is harmless
      xrt::op_end();
      if (guards[in.a].get() != nullptr || (bool)guards[in.a])
        L.err("C15", "algebra-reset", "reset left the guard non-empty");
      break;
    }
    case R_SELF_ASSIGN: {
      Node* x = guards[in.a].get();
      xrt::op_begin(in.op, true);
      GPtr& ref = guards[in.a];
      guards[in.a] = ref;
      if (in.b & 1)
        guards[in.a] = std::move(ref);
      xrt::op_end();
      if (guards[in.a].get() != x)
        L.err("C15", "algebra-self-assign", "self assignment changed the guard");
      break;
    }
    case R_DEREF: {
      GPtr& g = guards[in.a];
      if (g) {
        // reads through the guard: heap oracle + race detector + content check
        Node* n = g.get();
        uint64_t c = n->canary, p = n->payload;
        int64_t id = n->id;
        o.r2 = id;
        if (c != 0xC0FFEE00u + (uint64_t)id || p != (uint64_t)id * 7919u)
          L.err("C01", "guarded-object-corrupt",
                fmt("guarded node reads id=%" PRId64 " canary=%" PRIx64 " payload=%" PRIu64 " (destroyed or reused)", id, c, p));
      }
      break;
    }
    case R_REGION_ENTER: {
      if (regions.size() < 2) {
        xrt::op_begin(in.op, true);
        regions.push_back(std::make_unique<typename R::region_guard>());
        xrt::op_end();
      }
      break;
    }
    case R_REGION_LEAVE: {
      if (!regions.empty()) {
        xrt::op_begin(in.op, true);
        regions.pop_back();
        xrt::op_end();
      }
      break;
    }
    case R_RECLAIM_VIA_COPY: {
      // unlink through guard slot a, retire through a copy of it
      GPtr& g = guards[in.a];
      if (!g)
        break;
      MPtr expected = g;
      xrt::op_begin(in.op, true);
      bool ok = cell.compare_exchange_strong(expected, MPtr(nullptr), std::memory_order_acq_rel, std::memory_order_relaxed);
      xrt::op_end();
      rec.end(o);
      o.r = ok;
      if (ok) {
        o.r2 = g->id;
        L.cell_write(ci, raw(MPtr(g)), 0, o.call, o.ret);
        GPtr cp(g);
        do_reclaim(cp, g->id ^ 0x99);
        // the original guard still protects the node
        volatile uint64_t c = g->canary;
        (void)c;
      }
      break;
    }
    case R_RECLAIM_DIRECT: {
      // unlink the node that guard slot a holds and retire it through that very guard - no guard is created or re-acquired in between,
      // so several of these in a row are retirements "back to back" inside one critical region (batch retirement)
      GPtr& g = guards[in.a];
      if (!g)
        break;
      MPtr expected = g;
      xrt::op_begin(in.op, true);
      bool ok = cell.compare_exchange_strong(expected, MPtr(nullptr), std::memory_order_acq_rel, std::memory_order_relaxed);
      xrt::op_end();
      rec.end(o);
      o.r = ok;
      if (ok) {
        int64_t id = g->id;
        o.r2 = id;
        L.cell_write(ci, raw(MPtr(g)), 0, o.call, o.ret);
        L.guard_clear(in.a);
        do_reclaim(g, id ^ 0x55);
        {
          xrt::Quiet q; // counters are monitor state
          counters().add("direct_retirements");
        }
      }
      break;
    }
    }
    if (!o.done)
      rec.end(o);
  }

  static void worker_body(void* p) {
    Worker& w = *(Worker*)p;
    {
      std::vector<std::unique_ptr<typename R::region_guard>> regions;
      GPtr guards[NG];
      for (size_t i = 0; i < w.prog.size(); ++i)
        step(w, w.prog[i], w.recs[i], guards, regions);
      for (int g = 0; g < NG; ++g)
        lifetime().guard_clear(g);
      // guards and regions are destroyed here, in reverse order of construction
    }
    lifetime().thread_exit();
  }

  // flush thread: public API only. Empties the cells, then loops {region; publish/acquire/unlink/reclaim a dummy}
  static void flush_body(void* p) {
    Worker& w = *(Worker*)p;
    Shared& sh = *w.sh;
    auto& L = lifetime();
    for (int c = 0; c < sh.ncells; ++c) {
      GPtr g;
      g.acquire(sh.cell[c], std::memory_order_acquire);
      if (g) {
        MPtr expected = g;
        uint64_t c0 = xrt::stamp();
        if (sh.cell[c].compare_exchange_strong(expected, MPtr(nullptr), std::memory_order_acq_rel, std::memory_order_relaxed)) {
          L.cell_write(c, raw(MPtr(g)), 0, c0, xrt::stamp());
          do_reclaim(g, g->id ^ 0x33);
        }
      }
    }
    CPtr* priv = new CPtr();
    int it = 0;
    int extra = w.flush_extra; // generations: keep passing reclamation points so that handed-over retire lists
                               // (orphans) of short-lived threads are reclaimed too before the allocation census
    for (; it < 10000; ++it) {
      {
        xrt::Quiet q;
        if (L.census_complete() && extra-- <= 0)
          break;
      }
      { typename R::region_guard rg; }
      Node* d = new Node(-(int64_t)(it + 1), true);
      priv->store(MPtr(d), std::memory_order_release);
      GPtr g;
      g.acquire(*priv, std::memory_order_acquire);
      priv->store(MPtr(nullptr), std::memory_order_release);
      do_reclaim(g, 0);
    }
    w.flush_iters = it;
    delete priv;
    lifetime().thread_exit();
  }

  static std::string op_str(const OpRec& o) {
    std::string s = fmt("T%d %s(cell=%d,slot=%d)", o.thread, o.kind < R_NOPS ? rop_name[o.kind] : "?", (int)o.a, (int)o.b);
    s += fmt("->%" PRId64 "/%" PRId64 " [%" PRIu64 ",%" PRIu64 "]", o.r, o.r2, o.call, o.ret);
    return s;
  }

  static std::vector<RInstr> gen_prog(Rng& rng, int len, int ncells, bool allow_regions) {
    std::vector<RInstr> prog;
    for (int i = 0; i < len; ++i) {
      RInstr in;
      uint32_t r = rng.below(100);
      in.op = r < 18 ? R_PUBLISH : r < 30 ? R_UNLINK : r < 48 ? R_ACQUIRE : r < 54 ? R_ACQ_IF_EQ : r < 58 ? R_ACQ_IF_NE
              : r < 63 ? R_COPY : r < 67 ? R_MOVE : r < 70 ? R_COPY_CTOR : r < 73 ? R_MOVE_CTOR : r < 76 ? R_SWAP
              : r < 83 ? R_RESET : r < 85 ? R_SELF_ASSIGN : r < 91 ? R_DEREF : r < 94 ? R_REGION_ENTER : r < 96 ? R_REGION_LEAVE
              : r < 98 ? R_RECLAIM_VIA_COPY : R_RECLAIM_DIRECT;
      if (!allow_regions && (in.op == R_REGION_ENTER || in.op == R_REGION_LEAVE))
        in.op = R_DEREF;
      in.cell = (uint8_t)rng.below((uint32_t)ncells);
      in.a = (uint8_t)rng.below(NG);
      in.b = (uint8_t)rng.below(NG);
      prog.push_back(in);
    }
    // shaped: "retire, then leave" — the thread's last operations unlink/replace nodes, so its retire list is handed
    // over (thread exit, abandon strategies) while other threads still hold guards on those nodes
    if (rng.chance(1, 3)) {
      int tail = rng.range(1, 2);
      for (int i = 0; i < tail && i < (int)prog.size(); ++i) {
        RInstr& in = prog[prog.size() - 1 - (size_t)i];
        in.op = rng.chance(1, 2) ? R_UNLINK : R_PUBLISH;
      }
    }
    // shaped: "batch retirement" - take guards on two or three cells, then unlink and retire the nodes one after the other through those
    // guards without creating or re-acquiring any guard in between (the thread stays inside one critical region from the first acquire
    // to the last retirement), while other threads acquire the later nodes between the retirements
    if (ncells >= 2 && rng.chance(1, 6)) {
      std::vector<RInstr> batch;
      int nb = std::min(ncells, (int)NG);
      nb = rng.range(2, nb);
      int c0 = (int)rng.below((uint32_t)ncells);
      if (rng.chance(2, 3)) // make sure there is something to retire: publish into the cells first
        for (int i = 0; i < nb; ++i)
          batch.push_back(RInstr{R_PUBLISH, (uint8_t)((c0 + i) % ncells), 0, 0});
      for (int i = 0; i < nb; ++i)
        batch.push_back(RInstr{R_ACQUIRE, (uint8_t)((c0 + i) % ncells), (uint8_t)i, 0});
      if (rng.chance(1, 2))
        batch.push_back(RInstr{R_DEREF, 0, (uint8_t)rng.below((uint32_t)nb), 0});
      for (int i = 0; i < nb; ++i)
        batch.push_back(RInstr{R_RECLAIM_DIRECT, (uint8_t)((c0 + i) % ncells), (uint8_t)i, 0});
      size_t keep = prog.size() > batch.size() ? prog.size() - batch.size() : 0;
      size_t at = keep ? rng.below((uint32_t)keep + 1) : 0;
      prog.resize(keep);
      prog.insert(prog.begin() + (long)at, batch.begin(), batch.end());
      return prog;
    }
    // shaped: "hand protection over between guards" — acquire once, then copy to another guard and reset the source,
    // back and forth, while other threads unlink and scan (a scan must never miss an object whose protection moves)
    if (rng.chance(1, 6) && len >= 4) {
      prog.clear();
      uint8_t c = (uint8_t)rng.below((uint32_t)ncells), a = 0, b = 1;
      prog.push_back(RInstr{R_ACQUIRE, c, a, 0});
      int rounds = rng.range(1, 3);
      for (int i = 0; i < rounds; ++i) {
        prog.push_back(RInstr{R_COPY, c, a, b});
        prog.push_back(RInstr{R_RESET, c, a, 0});
        prog.push_back(RInstr{R_DEREF, c, b, 0});
        std::swap(a, b);
      }
      prog.push_back(RInstr{R_DEREF, c, a, 0});
      return prog;
    }
    // shaped: "hold a guard for long" — acquire early, dereference at the very end
    if (rng.chance(1, 3) && prog.size() >= 3) {
      prog[0].op = R_ACQUIRE;
      prog.back().op = R_DEREF;
      prog.back().a = prog[0].a;
      for (size_t i = 1; i + 1 < prog.size(); ++i)
        if (prog[i].a == prog[0].a && prog[i].op != R_PUBLISH && prog[i].op != R_UNLINK && prog[i].op != R_DEREF)
          prog[i].a = (uint8_t)((prog[0].a + 1) % NG);
    }
    return prog;
  }

  // mode 0: protocol (one episode + flush); mode 1: generations (C17)
  static void run(int mode, const ExecCtx& ctx, ExecOut& out) {
    Rng rng(ctx.seed);
    auto& L = lifetime();
    int ncells = rng.range(1, 3);
    L.reset(ncells, Custom);
    Shared* sh;
    {
      xrt::quiet_end();
      sh = new Shared();
      sh->ncells = ncells;
      xrt::quiet_begin();
    }
    History h;
    h.weak = ctx.weak;
    uint64_t blocks_mid = 0, blocks_end = 0, threads_between = 0;
    int64_t slots_mid = -1, slots_end = -1;
    int rounds = mode == 0 ? 1 : 2 * rng.range(3, 5);
    int total_threads = 0;
    std::vector<Worker> keep;
    uint64_t prog_seed = rng.next();
    for (int round = 0; round < rounds; ++round) {
      // generations: identical programs in every round (bounded peak), different schedules
      Rng prng(mode == 0 ? rng.next() : prog_seed);
      int nthreads = mode == 0 ? prng.range(2, 4) : prng.range(2, 3);
      int extra = mode == 0 ? (int)prng.below(3) : prng.range(1, 3); // late threads that start after another one exited
      int n = std::min(nthreads + extra, xrt::MAXT - 1);
      std::vector<Worker> workers((size_t)n);
      std::vector<xrt::ThreadSpec> specs((size_t)n);
      for (int t = 0; t < n; ++t) {
        Worker& w = workers[(size_t)t];
        w.sh = sh;
        w.weak = ctx.weak;
        w.tid = t + 1;
        w.prog = gen_prog(prng, prng.range(2, mode == 0 ? 9 : 6), ncells, true);
        w.recs.resize(w.prog.size());
        specs[(size_t)t].fn = worker_body;
        specs[(size_t)t].arg = &w;
        if (t >= nthreads)
          specs[(size_t)t].start_after = (int)prng.below((uint32_t)nthreads); // reuse of an exited thread's record
        else if (prng.chance(1, 4))
          specs[(size_t)t].start_delay = prng.below(150);
      }
      L.new_episode();
      xrt::run(ctx.runcfg((uint64_t)round), specs.data(), n);
      total_threads += n;
      if (round >= rounds / 2)
        threads_between += (uint64_t)n;
      if (mode == 0 || round == 0)
        for (auto& w : workers)
          for (auto& o : w.recs)
            h.ops.push_back(o);
      L.check_snapshots();
      if (xrt::has_violation() || !L.err_kind.empty())
        break;
      // quiescent point: flush with fresh threads (public API only)
      for (int f = 0; f < 2; ++f) {
        Worker fw;
        fw.sh = sh;
        fw.weak = ctx.weak;
        fw.tid = 1;
        fw.flush_extra = mode == 1 ? 12 : 0;
        xrt::ThreadSpec fs;
        fs.fn = flush_body;
        fs.arg = &fw;
        L.new_episode();
        xrt::run(ctx.runcfg(1000 + (uint64_t)round * 2 + (uint64_t)f), &fs, 1);
        counters().max("max_flush_iterations", (uint64_t)fw.flush_iters);
        if (L.census_complete() && f == 0 && mode == 0 && rng.chance(1, 2))
          break;
      }
      if (xrt::has_violation() || !L.err_kind.empty())
        break;
      L.census(true);
      if (!L.err_kind.empty())
        break;
      if (mode == 1 && ctx.verbose) {
        fprintf(stderr, "ROUND %d live_blocks=%" PRIu64 "\n", round, xrt::heap_live_blocks());
        if (round == rounds / 2 - 1 || round == rounds - 1)
          xrt::heap_dump_live(0, round == rounds - 1 ? "end" : "mid");
      }
      if (mode == 1) {
        // bookkeeping = live heap blocks that are not nodes awaiting reclamation (flush dummies retired by the last
        // flush thread legitimately stay pending until some later thread passes enough reclamation points)
        uint64_t pending = L.undestroyed_nodes();
        uint64_t live = xrt::heap_live_blocks();
        uint64_t bookkeeping = live > pending ? live - pending : 0;
        if (round == rounds / 2 - 1) {
          blocks_mid = bookkeeping;
          slots_mid = (int64_t)xv::declared_slots<XV_RECL>();
        }
        if (round == rounds - 1) {
          blocks_end = bookkeeping;
          slots_end = (int64_t)xv::declared_slots<XV_RECL>();
        }
      }
    }
    {
      xrt::quiet_end();
      delete sh;
      xrt::quiet_begin();
    }
    compute_overlaps(h);
    out.hist_hash = history_hash(h) ^ mix64((uint64_t)rounds, (uint64_t)total_threads);
    out.nontrivial = history_nontrivial(h);
    out.history = history_str(h, op_str);
    counters().add("ops", h.ops.size());
    counters().add("threads", (uint64_t)total_threads);
    counters().add("destroyed_in_history", L.destroyed_in_history);
    counters().add("destroyed_while_other_thread_guards", L.destroyed_while_other_guarded);
    counters().add("destroyed_by_other_after_retirer_exit", L.destroyed_by_other_after_exit);
    counters().add("guards_registered", L.guards_registered);
    // the lifetime registry is the more specific witness; a race / heap report of the runtime usually accompanies it
    if (!L.err_kind.empty() && L.err_prop == "C01") {
      out.fail(L.err_prop.c_str(), L.err_kind.c_str(), L.err_msg);
      return;
    }
    if (xrt::has_violation())
      return;
    if (!L.err_kind.empty()) {
      out.fail(L.err_prop.c_str(), L.err_kind.c_str(), L.err_msg);
      return;
    }
    if (mode == 1) {
      counters().add("generation_rounds", (uint64_t)rounds);
      counters().max("max_bookkeeping_blocks", blocks_end);
      // a leak of one bookkeeping block per thread would add `threads_between` blocks in the second half
      if (blocks_end > blocks_mid && (blocks_end - blocks_mid) * 2 >= threads_between)
        out.fail("C17", "bookkeeping-growth",
                 fmt("live allocations at quiescent points grew from %" PRIu64 " (after %d rounds) to %" PRIu64
                     " (after %d rounds) while %" PRIu64 " threads came and went",
                     blocks_mid, rounds / 2, blocks_end, rounds, threads_between));
      // at a quiescent point every worker has exited: the published number of active hazard pointers / eras is what the records of
      // exited threads still contribute - it must not grow with the number of threads that came and went
      if (slots_end >= 0) {
        counters().add("declared_slot_samples");
        counters().max("max_declared_slots_at_quiescence", (uint64_t)slots_end);
        if (slots_end > slots_mid && (uint64_t)(slots_end - slots_mid) >= threads_between)
          out.fail("C17", "declared-slots-growth",
                   fmt("the number of active hazard pointers / eras published by the allocation strategy at quiescent points (no worker alive) grew "
                       "from %" PRId64 " (after %d rounds) to %" PRId64 " (after %d rounds) while %" PRIu64 " threads came and went",
                       slots_mid, rounds / 2, slots_end, rounds, threads_between));
      }
    }
  }
};

struct Cfg {
  std::string name;
  std::function<void(const ExecCtx&, ExecOut&)> run;
};
std::vector<Cfg>& table() {
  static std::vector<Cfg>* t = new std::vector<Cfg>();
  return *t;
}
template <bool Custom, size_t Mark>
void reg(const char* suffix) {
  table().push_back({std::string("proto_") + suffix, [](const ExecCtx& c, ExecOut& o) { Env<Custom, Mark>::run(0, c, o); }});
  table().push_back({std::string("gens_") + suffix, [](const ExecCtx& c, ExecOut& o) { Env<Custom, Mark>::run(1, c, o); }});
}
} // namespace

int main(int argc, char** argv) {
  xrt::quiet_begin();
  reg<false, 0>("def_m0");
  reg<false, 2>("def_m2");
#if XV_RECL != 0 && XV_RECL != 10 // lock_free_ref_count only supports std::default_delete
  reg<true, 0>("del_m0");
  reg<true, 1>("del_m1");
#endif
  static std::string name = std::string("reclaim.") + xv::RNAME;
  ScenarioDef def;
  def.name = name.c_str();
  for (auto& c : table())
    def.configs.push_back(c.name);
  def.run = [](const std::string& cfg, const ExecCtx& ctx, ExecOut& out) {
    for (auto& c : table())
      if (c.name == cfg) {
        c.run(ctx, out);
        return;
      }
  };
  return scenario_main(argc, argv, def);
}
